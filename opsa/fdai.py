"""fdai — finite-domain specialising abstract interpreter.

Interprets the *AST* of repo functions (the repo is never imported or run)
over abstract values: Python constants, enum members (EnumVal), records (Obj,
fields filled from the class definition), native containers of abstract
values, closures, and Unknown (anything).  A branch on an Unknown is a
nondeterministic choice: `explore()` re-runs the specialised function once per
choice sequence (stateless path enumeration), so every run is deterministic
and needs no state copying.  Choices on the same symbolic condition are
memoised within a path, which removes the syntactically infeasible paths.
With the finite parameters fixed to constants every branch of the decision
tables this is used on folds; what stays Unknown (clock values, user
callbacks, free-form strings) is reported with the path.

No solver is involved: conditions are either folded to constants or chosen
both ways."""
from __future__ import annotations

import ast
import os
import builtins as _b
import math
import operator
import threading

from .loader import AnchorError, ClassInfo, FuncInfo, Project, dotted, src
from .loader import short as _short


_SHORT_CACHE: dict = {}


def short(n, k=200):
    # labels are requested for the same (immutable, project-owned) nodes over and over; the node is kept in the entry so
    # that its id cannot be reused
    key = (id(n), k)
    hit = _SHORT_CACHE.get(key)
    if hit is None or hit[0] is not n:
        hit = _SHORT_CACHE[key] = (n, _short(n, k))
    return hit[1]


class Imprecise(Exception):
    """the interpreter met a construct it cannot model (ends the run as analysis-error)"""


class PathLimit(Exception):
    pass


class PyRaise(Exception):
    def __init__(self, exc):
        self.exc = exc   # Obj of an exception class, or ExcVal


class _Return(Exception):
    def __init__(self, v):
        self.v = v


class _Break(Exception):
    pass


class _BodyExit(Exception):
    """a return/break/continue of a with-body travelling through the @contextmanager generator that hosts it"""
    def __init__(self, cf):
        self.cf = cf


class _GenCM:
    """a called @contextmanager generator function, not yet entered"""
    def __init__(self, func, env):
        self.func, self.env = func, env


class _Suppress:
    def __init__(self, names):
        self.names = names


class _Continue(Exception):
    pass


class Unknown:
    __slots__ = ("sym", "neg", "meth", "kind")

    def __init__(self, sym, neg=False, meth=False, kind=None):
        self.sym = sym
        self.neg = neg
        self.meth = meth     # attribute of an unknown value (calling it is a pure method call, not a user callback)
        self.kind = kind     # what is known of its type: "int" | "real" | "str" | "bool" | None (isinstance tests are then decided)

    def __repr__(self):
        return ("¬" if self.neg else "") + f"?{self.sym}"

    def __hash__(self):
        return hash((self.sym, self.neg))

    def __eq__(self, o):
        return isinstance(o, Unknown) and o.sym == self.sym and o.neg == self.neg


class Iv:
    """closed real interval [lo, hi] — abstract number; identity (`is`) marks 'the same quantity' so x-x=0 and x/x=1"""
    __slots__ = ("lo", "hi", "name", "addends")
    _n = 0

    def __init__(self, lo, hi, name=None, addends=None):
        self.lo, self.hi = float(lo), float(hi)
        Iv._n += 1
        self.name = name or f"iv{Iv._n}"
        self.addends = addends      # (a, b) when this value is the sum a + b (kept for x / (x + y))

    def __repr__(self):
        return f"{self.name}∈[{self.lo:g},{self.hi:g}]"

    @staticmethod
    def of(x):
        if isinstance(x, Iv):
            return x
        if isinstance(x, bool):
            return Iv(int(x), int(x))
        return Iv(x, x)


def _iv_mul(a, b):
    ps = []
    for x in (a.lo, a.hi):
        for y in (b.lo, b.hi):
            ps.append(0.0 if (x == 0 or y == 0) else x * y)
    return Iv(min(ps), max(ps))


def iv_binop(op, a, b):
    """interval arithmetic; returns Iv, a python number, or None (not applicable)"""
    inf = float("inf")
    if isinstance(op, ast.Add):
        if not isinstance(b, Iv) and b == 0:
            return a
        if not isinstance(a, Iv) and a == 0:
            return b
        A, B = Iv.of(a), Iv.of(b)
        return Iv(A.lo + B.lo, A.hi + B.hi, addends=(a, b))
    if isinstance(op, ast.Sub):
        if a is b:
            return 0.0
        if not isinstance(b, Iv) and b == 0:
            return a
        A, B = Iv.of(a), Iv.of(b)
        return Iv(A.lo - B.hi, A.hi - B.lo)
    if isinstance(op, ast.Mult):
        if (not isinstance(a, Iv) and a == 0) or (not isinstance(b, Iv) and b == 0):
            return 0.0
        if not isinstance(b, Iv) and b == 1:
            return a
        if not isinstance(a, Iv) and a == 1:
            return b
        return _iv_mul(Iv.of(a), Iv.of(b))
    if isinstance(op, ast.Div):
        if a is b and (a.lo > 0 or a.hi < 0):
            return 1.0
        if not isinstance(a, Iv) and a == 0:
            return 0.0        # 0 / x  (x = 0 would raise; the guarded paths are the ones analysed)
        if not isinstance(b, Iv) and b == 1:
            return a
        if isinstance(b, Iv) and b.addends is not None and isinstance(a, Iv) and any(x is a for x in b.addends) and a.lo >= 0:
            # x / (x + y) with x, y >= 0 is monotone: increasing in x, decreasing in y
            y = Iv.of(b.addends[1] if b.addends[0] is a else b.addends[0])
            if y.lo >= 0 and (a.lo + y.hi) > 0 and (a.hi + y.lo) > 0:
                return Iv(a.lo / (a.lo + y.hi), a.hi / (a.hi + y.lo))
        A, B = Iv.of(a), Iv.of(b)
        if B.lo <= 0 <= B.hi:
            if B.lo == 0 and B.hi > 0 and A.lo >= 0:
                return Iv(A.lo / B.hi if B.hi != inf else 0.0, inf)
            return Iv(-inf, inf)
        return _iv_mul(A, Iv(1.0 / B.hi, 1.0 / B.lo))
    return None


def iv_compare(op, a, b):
    """True / False when decided for every concretisation, else None"""
    if a is b:
        return isinstance(op, (ast.Eq, ast.LtE, ast.GtE))
    A, B = Iv.of(a), Iv.of(b)
    if isinstance(op, ast.Lt):
        return True if A.hi < B.lo else (False if A.lo >= B.hi else None)
    if isinstance(op, ast.LtE):
        return True if A.hi <= B.lo else (False if A.lo > B.hi else None)
    if isinstance(op, ast.Gt):
        return True if A.lo > B.hi else (False if A.hi <= B.lo else None)
    if isinstance(op, ast.GtE):
        return True if A.lo >= B.hi else (False if A.hi < B.lo else None)
    if isinstance(op, ast.Eq):
        if A.lo == A.hi == B.lo == B.hi:
            return True
        return False if (A.hi < B.lo or B.hi < A.lo) else None
    if isinstance(op, ast.NotEq):
        r = iv_compare(ast.Eq(), a, b)
        return None if r is None else (not r)
    return None


class EnumVal:
    __slots__ = ("cls", "name", "value")

    def __init__(self, cls: ClassInfo, name, value):
        self.cls = cls
        self.name = name
        self.value = value

    def __repr__(self):
        return f"{self.cls.name}.{self.name}"

    def __hash__(self):
        return hash((self.cls.name, self.name))

    def __eq__(self, o):
        return isinstance(o, EnumVal) and o.cls.name == self.cls.name and o.name == self.name


class Obj:
    _n = 0

    def __init__(self, cls: ClassInfo | None, fields=None, tag=""):
        self.cls = cls
        self.fields = fields if fields is not None else {}
        Obj._n += 1
        self.tag = tag or f"{cls.name if cls else 'obj'}#{Obj._n}"

    def __repr__(self):
        return f"<{self.cls.name if self.cls else 'obj'} {self.tag}>"


class ExcVal:
    """instance of a builtin / unresolved exception class"""

    def __init__(self, clsname, args=()):
        self.clsname = clsname
        self.args = args

    def __repr__(self):
        return f"{self.clsname}({', '.join(map(repr, self.args))})"


class Func:
    def __init__(self, node, module, env=None, self_obj=None, fi=None, cls=None):
        self.node = node          # FunctionDef or Lambda
        self.module = module
        self.env = env            # closure Env
        self.self_obj = self_obj
        self.fi = fi
        self.cls = cls
        self.defaults = None      # {parameter name: value} evaluated when the def / lambda was executed (None: not yet / a method)

    def __repr__(self):
        n = getattr(self.node, "name", "<lambda>")
        return f"<func {n}>"


class ClassRef:
    def __init__(self, ci):
        self.ci = ci

    def __repr__(self):
        return f"<class {self.ci.name}>"

    def __hash__(self):
        return hash(self.ci.key)

    def __eq__(self, o):
        return isinstance(o, ClassRef) and o.ci.key == self.ci.key


class ExtRef:
    """reference to something outside the package (module, builtin class, function) by dotted name"""

    def __init__(self, name):
        self.name = name

    def __repr__(self):
        return f"<ext {self.name}>"

    def __hash__(self):
        return hash(self.name)

    def __eq__(self, o):
        return isinstance(o, ExtRef) and o.name == self.name


class BoundBuiltin:
    def __init__(self, recv, name):
        self.recv = recv
        self.name = name


def _is_generator(node):
    if not isinstance(node, (ast.FunctionDef, ast.AsyncFunctionDef)):
        return False
    memo = getattr(node, "_opsa_gen", None)
    if memo is None:
        memo = False
        todo = list(node.body)
        while todo:
            x = todo.pop()
            if isinstance(x, (ast.Yield, ast.YieldFrom)):
                memo = True
                break
            if isinstance(x, (ast.FunctionDef, ast.AsyncFunctionDef, ast.Lambda, ast.ClassDef)):
                continue
            todo.extend(ast.iter_child_nodes(x))
        node._opsa_gen = memo
    return memo


class Env:
    def __init__(self, parent=None):
        self.vars = {}
        self.parent = parent

    def lookup(self, name):
        e = self
        while e is not None:
            if name in e.vars:
                return True, e.vars[name]
            e = e.parent
        return False, None


class Oracle:
    def __init__(self, prefix=()):
        self.prefix = list(prefix)
        self.taken = []
        self.arity = []
        self.labels = []
        self.memo = {}

    def choose(self, n, label, key=None):
        if key is not None and key in self.memo:
            return self.memo[key]
        i = len(self.taken)
        c = self.prefix[i] if i < len(self.prefix) else 0
        self.taken.append(c)
        self.arity.append(n)
        self.labels.append((label, c))
        if key is not None:
            self.memo[key] = c
        return c


class SkipPath(Exception):
    """raised by a harness for a path that is outside what it studies (e.g. a constructor that rejects the chosen
    configuration): the path is dropped, its alternatives are still explored"""


def explore(run, max_paths=4000, partial=False):
    """run(oracle) -> result; enumerates all choice sequences.  Returns [(labels, result)].  partial=True: when the space is
    larger than max_paths, the first max_paths paths are returned (each is a real path of the model: what is found on them
    is found; what is not found on them is *not* shown absent — the caller must treat an empty finding as undecided)"""
    out = []
    stack = [[]]
    n_run = 0
    while stack:
        prefix = stack.pop()
        o = Oracle(prefix)
        n_run += 1
        try:
            r = run(o)
            out.append((list(o.labels), r))
        except SkipPath:
            pass
        if len(out) > max_paths or n_run > 4 * max_paths:
            if partial:
                return out
            raise PathLimit(f"more than {max_paths} paths")
        for i in range(len(prefix), len(o.taken)):
            for alt in range(o.taken[i] + 1, o.arity[i]):
                stack.append(o.taken[:i] + [alt])
    return out


EXC_BASES = {"JSONDecodeError": ["ValueError"], "ValidationError": ["ValueError"]}


class Interp:
    MAX_DEPTH = 40
    MAX_LOOP = 64

    def __init__(self, project: Project, oracle: Oracle, stubs=None, on_event=None, unknown_attr_ok=True):
        self.p = project
        self.o = oracle
        self.stubs = stubs or {}       # "Class.method" / "function" -> callable(interp, self_obj, args, kwargs)
        self.events = []               # (kind, ...) appended by stubs / field writes
        self.on_event = on_event
        self.depth = 0
        self._uk = 0
        self.watch_fields = set()      # (class name, field) whose writes are logged as events; (class name, '*') = all
        self.decisions = []            # (test text, outcome) for every branch taken on an Unknown
        self.trace_calls = set()       # qualnames whose invocation is logged as ("call", qual)
        self.truncated_loops = 0
        self.undecided_numeric = 0     # interval comparisons that could not be decided (explored both ways)
        self.ext_stubs = {}            # dotted external name -> callable(interp, args, kwargs) (models of stdlib calls that can fail)
        self.field_reads = None        # set() to record (class name, field) of every instance field read
        self.host_reads = set()        # (host class name, attribute) read from host objects (ast nodes given as data)
        self.max_unknown_len = 2       # an unknown collection is iterated with 0..max_unknown_len unknown elements
        self._modenv = {}
        self.bypass_stub_once = None
        self.opaque_mutators = []      # external calls modelled as pure although they received a mutable container
        self.call_stack = []           # (module.rel, lineno) of the call expressions being evaluated, innermost last

    # ------------------------------------------------------------ helpers
    def fresh(self, hint="v"):
        self._uk += 1
        return Unknown(f"{hint}{self._uk}")

    def event(self, *ev):
        self.events.append(ev)
        if self.on_event:
            self.on_event(ev)

    def truth(self, v, label=""):
        """three-valued truthiness folded to bool via the oracle"""
        if isinstance(v, Unknown):
            c = self.o.choose(2, f"{label or v.sym}", key=("truth", v.sym))
            # choice 0 = the positive symbol is True
            val = (c == 0)
            val = (not val) if v.neg else val
            self.decisions.append((label or v.sym, val, v.sym, (not val) if v.neg else val))
            return val
        if isinstance(v, Iv):
            if v.lo > 0 or v.hi < 0:
                return True
            if v.lo == v.hi == 0:
                return False
            self.undecided_numeric += 1
            c = self.o.choose(2, f"{v!r} != 0", key=("truth", v.name))
            val = (c == 0)
            self.decisions.append((f"{v!r} != 0", val, v.name, val))
            return val
        if isinstance(v, EnumVal) and isinstance(v.value, (int, float)) and not isinstance(v.value, bool) and any(b in ("IntEnum", "IntFlag", "Flag") for b in v.cls.bases):
            return bool(v.value)          # an IntEnum / flag member is as true as its number (member 0 is falsy)
        if isinstance(v, EnumVal):
            bl = self.p.find_method(v.cls, "__bool__")
            if bl:
                return self.truth(self.call_fi(bl, [v], {}))
        if isinstance(v, (EnumVal, Obj, Func, ClassRef, ExtRef, ExcVal, BoundBuiltin)):
            if isinstance(v, Obj) and v.cls is not None:
                ln = self.p.find_method(v.cls, "__len__")
                bl = self.p.find_method(v.cls, "__bool__")
                if bl:
                    return self.truth(self.call_fi(bl, [v], {}))
                if ln:
                    return self.truth(self.call_fi(ln, [v], {}))
            return True
        return bool(v)

    # ------------------------------------------------------------ module-level names
    def module_env(self, module):
        if module.name in self._modenv:
            return self._modenv[module.name]
        env = Env()
        self._modenv[module.name] = env
        for st in module.tree.body:
            if isinstance(st, ast.Assign) and len(st.targets) == 1 and isinstance(st.targets[0], ast.Name):
                env.vars[st.targets[0].id] = ("lazy", st.value, module)
            elif isinstance(st, ast.AnnAssign) and isinstance(st.target, ast.Name) and st.value is not None:
                env.vars[st.target.id] = ("lazy", st.value, module)
        return env

    def global_name(self, name, module):
        env = self.module_env(module)
        if name in env.vars:
            v = env.vars[name]
            if isinstance(v, tuple) and len(v) == 3 and v[0] == "lazy":
                val = self.eval(v[1], Env(env), v[2])
                env.vars[name] = val
                return val
            return v
        # classes / functions of the module or imported
        for ci in self.p.classes.get(name, []):
            if ci.module is module:
                return ClassRef(ci)
        for fi in self.p.functions.get(name, []):
            if fi.module is module:
                return Func(fi.node, fi.module, None, None, fi)
        tgt = module.imports.get(name)
        if tgt:
            if tgt.startswith("operon_ai"):
                modname, _, leaf = tgt.rpartition(".")
                for ci in self.p.classes.get(leaf, []):
                    return ClassRef(ci) if len(self.p.classes[leaf]) == 1 else ClassRef(self._pick(self.p.classes[leaf], modname))
                for fi in self.p.functions.get(leaf, []):
                    return Func(fi.node, fi.module, None, None, fi)
                # constant re-exported from another module
                for m in self.p.modules.values():
                    if m.name == modname or m.name.startswith(modname + "."):
                        e2 = self.module_env(m)
                        if leaf in e2.vars:
                            return self.global_name(leaf, m)
                return ExtRef(tgt)
            return ExtRef(tgt)
        if hasattr(_b, name):
            return ExtRef(name)
        raise Imprecise(f"unbound name {name} in {module.rel}")

    def _pick(self, cands, modname):
        for c in cands:
            if c.module.name == modname or c.module.name.startswith(modname):
                return c
        return cands[0]

    # ------------------------------------------------------------ objects
    def enum_member(self, ci: ClassInfo, name):
        for n, v in ci.enum_members():
            if n == name:
                val = v.value if isinstance(v, ast.Constant) else (self._auto_value(ci, n))
                return EnumVal(ci, n, val)
        return None

    def _auto_value(self, ci, name):
        for i, (n, v) in enumerate(ci.enum_members()):
            if n == name:
                return i + 1
        return None

    def enum_members(self, ci):
        return [self.enum_member(ci, n) for n, _ in ci.enum_members()]

    def instantiate(self, ci: ClassInfo, args, kwargs):
        stub = self.stubs.get(f"{ci.name}.__new__")
        if stub:
            return stub(self, ci, args, kwargs)
        if ci.is_enum():
            # Enum(value) lookup
            if len(args) == 1:
                if isinstance(args[0], EnumVal) and args[0].cls is ci:
                    return args[0]          # Enum(member) is the member
                for m in self.enum_members(ci):
                    if m.value == args[0]:
                        return m
                if isinstance(args[0], Unknown):
                    return self.fresh(f"{ci.name}(…)")
                raise PyRaise(ExcVal("ValueError", (f"{args[0]!r} is not a valid {ci.name}",)))
        if self._is_exception(ci):
            o = Obj(ci, {"args": tuple(args)})
            init = self.p.find_method(ci, "__init__")
            if init:
                self.call_fi(init, [o] + list(args), kwargs)
            return o
        o = Obj(ci)
        if ci.is_dataclass() or self._dataclass_base(ci) or self._is_namedtuple(ci):
            fields = self._dc_fields(ci)
            names = [f for f, _, _, init in fields if init]
            bound = dict(zip(names, args))
            if len(args) > len(names):
                raise PyRaise(ExcVal("TypeError", ("too many positional arguments",)))
            for k, v in kwargs.items():
                if k not in names:
                    raise PyRaise(ExcVal("TypeError", (f"unexpected keyword {k}",)))
                bound[k] = v
            for f, default, module, init in fields:
                if f in bound:
                    o.fields[f] = bound[f]
                elif default is not None:
                    o.fields[f] = self._dc_default(default, module)
                elif init:
                    raise PyRaise(ExcVal("TypeError", (f"missing argument {f} for {ci.name}",)))
            post = self.p.find_method(ci, "__post_init__")
            if post:
                self.call_fi(post, [o], {})
            return o
        init = self.p.find_method(ci, "__init__")
        if init:
            self.call_fi(init, [o] + list(args), kwargs)
        return o

    def _is_exception(self, ci, seen=()):
        for b in ci.bases:
            if b in ("Exception", "BaseException", "ValueError", "RuntimeError", "TypeError", "KeyError"):
                return True
            for bc in self.p.classes.get(b, []):
                if bc.key not in seen and self._is_exception(bc, seen + (ci.key,)):
                    return True
        return False

    def _is_namedtuple(self, ci):
        return any(b in ("NamedTuple", "typing.NamedTuple") for b in ci.bases)

    def _dataclass_base(self, ci):
        return any(bc.is_dataclass() for b in ci.bases for bc in self.p.classes.get(b, []))

    def _dc_fields(self, ci):
        cache = self.p.__dict__.setdefault("_dc_fields_cache", {})
        if id(ci) not in cache:
            cache[id(ci)] = (ci, self._dc_fields_uncached(ci))
        return list(cache[id(ci)][1])

    def _dc_fields_uncached(self, ci):
        out = []
        for b in ci.bases:
            for bc in self.p.classes.get(b, []):
                if bc.is_dataclass():
                    out.extend(self._dc_fields(bc))
        for st in ci.node.body:
            if isinstance(st, ast.AnnAssign) and isinstance(st.target, ast.Name):
                if "ClassVar" in src(st.annotation):
                    continue
                init = True
                if isinstance(st.value, ast.Call) and (dotted(st.value.func) or "").split(".")[-1] == "field":
                    for k in st.value.keywords:
                        if k.arg == "init" and isinstance(k.value, ast.Constant) and k.value.value is False:
                            init = False
                out = [x for x in out if x[0] != st.target.id]
                out.append((st.target.id, st.value, ci.module, init))
        return out

    def _dc_default(self, default, module):
        if isinstance(default, ast.Call) and (dotted(default.func) or "").split(".")[-1] == "field":
            kws = {k.arg: k.value for k in default.keywords}
            if "default_factory" in kws:
                f = self.eval(kws["default_factory"], Env(), module)
                return self.call(f, [], {})
            if "default" in kws:
                return self.eval(kws["default"], Env(), module)
            return self.fresh("field")
        return self.eval(default, Env(), module)

    # ------------------------------------------------------------ calling
    def call_fi(self, fi: FuncInfo, args, kwargs):
        return self.call(Func(fi.node, fi.module, None, None, fi, fi.cls), args, kwargs)

    def call(self, f, args, kwargs):
        if isinstance(f, Func):
            return self._call_func(f, args, kwargs)
        if "**" in kwargs:
            kwargs = {k: v for k, v in kwargs.items() if k != "**"}     # an unknown **mapping only travels into interpreted functions
        if isinstance(f, ClassRef):
            return self.instantiate(f.ci, args, kwargs)
        if isinstance(f, BoundBuiltin):
            if isinstance(f.recv, _LazyGen):
                return self._gen_method(f.recv, f.name, args)
            return self._method(f.recv, f.name, [self._drained(a) for a in args], kwargs)
        if isinstance(f, ExtRef):
            if f.name not in _LAZY_AWARE:
                args = [self._drained(a) for a in args]
            return self._ext_call(f.name, args, kwargs)
        if isinstance(f, Unknown) and f.meth:
            return Unknown(f"{f.sym}({', '.join(_sym(a) for a in args)})")
        if isinstance(f, Unknown):
            self.event("extcall", f.sym, tuple(args))
            c = self.o.choose(2, f"callback {f.sym} returns / raises")
            if c == 1:
                raise PyRaise(ExcVal("Exception", (f"raised by {f.sym}",)))
            return self.fresh(f"ret({f.sym})")
        if callable(f) and getattr(f, "_opsa_stub", False):
            return f(self, args, kwargs)
        raise PyRaise(ExcVal("TypeError", (f"{f!r} is not callable",)))

    def _call_func(self, f: Func, args, kwargs):
        node = f.node
        name = getattr(node, "name", "<lambda>")
        qual = f.fi.qual if f.fi else name
        if f.self_obj is not None:
            args = [f.self_obj] + list(args)
        if qual in self.trace_calls:
            self.event("call", qual)
        stub = self.stubs.get(qual)
        if stub is not None and self.bypass_stub_once == qual:
            self.bypass_stub_once = None       # a stub delegating to the real function (bounded recursion models)
        elif stub is not None:
            return stub(self, args, kwargs)
        self.depth += 1
        if self.depth > self.MAX_DEPTH:
            self.depth -= 1
            raise Imprecise(f"call depth exceeded at {qual}")
        try:
            env = Env(f.env)
            self._bind(node.args, args, kwargs, env, f.module, qual, f.defaults)
            if isinstance(node, ast.Lambda):
                return self.eval(node.body, env, f.module)
            if _is_generator(node) and any((dotted(d) or "").split(".")[-1] == "contextmanager" for d in getattr(node, "decorator_list", [])):
                return _GenCM(f, env)
            if _is_generator(node):
                # generator function: the body is advanced on demand (see _LazyGen), so a consumer that stops early
                # (all(), next(), break) leaves the rest of the body unexecuted, as in Python
                def run_body(emit, _env=env, _node=node, _mod=f.module):
                    _env.vars["__yielded__"] = emit
                    try:
                        self.exec_block(_node.body, _env, _mod)
                    except _Return as r_:
                        return r_.v
                    return None
                return _LazyGen(run_body, qual)
            try:
                self.exec_block(node.body, env, f.module)
            except _Return as r:
                return r.v
            return None
        finally:
            self.depth -= 1

    def e_Yield(self, e, env, module):
        ok, acc = env.lookup("__yielded__")
        if not ok:
            raise Imprecise(f"yield outside an interpreted generator at {module.rel}:{e.lineno}")
        val = self.eval(e.value, env, module) if e.value is not None else None
        if callable(acc):
            acc(val)          # @contextmanager: the with-body runs here
            return None
        acc.append(val)
        return None

    def e_YieldFrom(self, e, env, module):
        ok, acc = env.lookup("__yielded__")
        if not ok:
            raise Imprecise(f"yield from outside an interpreted generator at {module.rel}:{e.lineno}")
        sub = self.eval(e.value, env, module)
        for x in self.iter_lazy(sub):
            acc(x) if callable(acc) else acc.append(x)
        return getattr(sub, "retval", None)

    def _bind(self, a: ast.arguments, args, kwargs, env, module, qual, evaluated=None):
        params = a.posonlyargs + a.args
        args = list(args)
        kwargs = dict(kwargs)
        n_def = len(a.defaults)
        for i, p_ in enumerate(params):
            if i < len(args):
                env.vars[p_.arg] = args[i]
            elif p_.arg in kwargs:
                env.vars[p_.arg] = kwargs.pop(p_.arg)
            else:
                di = i - (len(params) - n_def)
                if di >= 0 and evaluated is not None and p_.arg in evaluated:
                    env.vars[p_.arg] = evaluated[p_.arg]
                elif di >= 0:
                    env.vars[p_.arg] = self.eval(a.defaults[di], Env(self.module_env(module)), module)
                else:
                    raise PyRaise(ExcVal("TypeError", (f"{qual}: missing argument {p_.arg}",)))
        extra = args[len(params):]
        if a.vararg:
            env.vars[a.vararg.arg] = tuple(extra)
        elif extra:
            raise PyRaise(ExcVal("TypeError", (f"{qual}: too many positional arguments",)))
        for p_, d in zip(a.kwonlyargs, a.kw_defaults):
            if p_.arg in kwargs:
                env.vars[p_.arg] = kwargs.pop(p_.arg)
            elif d is not None and evaluated is not None and p_.arg in evaluated:
                env.vars[p_.arg] = evaluated[p_.arg]
            elif d is not None:
                env.vars[p_.arg] = self.eval(d, Env(self.module_env(module)), module)
            else:
                raise PyRaise(ExcVal("TypeError", (f"{qual}: missing keyword {p_.arg}",)))
        star = kwargs.pop("**", None)     # an unknown mapping passed as **m (see e_Call): it is the callee's **kwargs as a whole
        if a.kwarg:
            env.vars[a.kwarg.arg] = star if (star is not None and not kwargs) else kwargs
        elif kwargs:
            raise PyRaise(ExcVal("TypeError", (f"{qual}: unexpected keyword(s) {sorted(kwargs)}",)))

    # ------------------------------------------------------------ statements
    def exec_block(self, stmts, env, module):
        for st in stmts:
            self.exec(st, env, module)

    def exec(self, st, env, module):
        m = getattr(self, "x_" + type(st).__name__, None)
        if m is None:
            raise Imprecise(f"statement {type(st).__name__} at {module.rel}:{st.lineno}")
        return m(st, env, module)

    def x_Expr(self, st, env, module):
        self.eval(st.value, env, module)

    def x_Pass(self, st, env, module):
        pass

    def x_Import(self, st, env, module):
        for a in st.names:
            env.vars[a.asname or a.name.split(".")[0]] = ExtRef(a.name if a.asname else a.name.split(".")[0])

    def x_ImportFrom(self, st, env, module):
        for a in st.names:
            try:
                env.vars[a.asname or a.name] = self.global_name(a.asname or a.name, module)
            except Imprecise:
                env.vars[a.asname or a.name] = ExtRef(f"{st.module}.{a.name}")

    def x_Global(self, st, env, module):
        pass

    def x_Nonlocal(self, st, env, module):
        pass

    def x_FunctionDef(self, st, env, module):
        env.vars[st.name] = self._closure(st, env, module)

    def _closure(self, node, env, module):
        """a nested def / lambda: its parameter defaults are evaluated now, in the defining scope (the `x=x` idiom)"""
        f = Func(node, module, env)
        a = node.args
        params = a.posonlyargs + a.args
        f.defaults = {}
        for p_, d in zip(params[len(params) - len(a.defaults):], a.defaults):
            f.defaults[p_.arg] = self.eval(d, env, module)
        for p_, d in zip(a.kwonlyargs, a.kw_defaults):
            if d is not None:
                f.defaults[p_.arg] = self.eval(d, env, module)
        return f

    def x_Return(self, st, env, module):
        raise _Return(self.eval(st.value, env, module) if st.value is not None else None)

    def x_Break(self, st, env, module):
        raise _Break()

    def x_Continue(self, st, env, module):
        raise _Continue()

    def x_Assert(self, st, env, module):
        if not self.truth(self.eval(st.test, env, module), short(st.test)):
            raise PyRaise(ExcVal("AssertionError"))

    def x_Raise(self, st, env, module):
        if st.exc is None:
            cur = env.lookup("__exc__")[1]
            raise PyRaise(cur if cur is not None else ExcVal("RuntimeError"))
        v = self.eval(st.exc, env, module)
        if isinstance(v, ClassRef):
            v = self.instantiate(v.ci, [], {})
        elif isinstance(v, ExtRef):
            v = ExcVal(v.name.split(".")[-1])
        raise PyRaise(v)

    def x_Delete(self, st, env, module):
        for t in st.targets:
            if isinstance(t, ast.Subscript):
                c = self.eval(t.value, env, module)
                if isinstance(t.slice, ast.Slice):
                    lo = self.eval(t.slice.lower, env, module) if t.slice.lower else None
                    hi = self.eval(t.slice.upper, env, module) if t.slice.upper else None
                    stp = self.eval(t.slice.step, env, module) if t.slice.step else None
                    if isinstance(c, list) and not any(isinstance(x, Unknown) for x in (lo, hi, stp)):
                        del c[lo:hi:stp]
                        continue
                    if isinstance(c, Unknown):
                        continue
                    raise Imprecise(f"del of a slice of {type(c).__name__} at {module.rel}:{st.lineno}")
                k = self.eval(t.slice, env, module)
                if isinstance(c, (dict, list)):
                    try:
                        del c[k]
                    except (KeyError, IndexError) as e:
                        raise PyRaise(ExcVal(type(e).__name__, (k,)))
                elif not isinstance(c, Unknown):
                    raise Imprecise(f"del on {c!r}")
            elif isinstance(t, ast.Name):
                env.vars.pop(t.id, None)
            elif isinstance(t, ast.Attribute):
                o = self.eval(t.value, env, module)
                if isinstance(o, Obj):
                    o.fields.pop(t.attr, None)

    def x_Assign(self, st, env, module):
        v = self.eval(st.value, env, module)
        for t in st.targets:
            self.assign(t, v, env, module)

    def _find_setter(self, ci, attr, depth=0):
        if attr in getattr(ci, "setters", {}):
            return ci.setters[attr]
        if depth < 4:
            for b in ci.bases:
                for bc in self.p.classes.get(b, []):
                    r = self._find_setter(bc, attr, depth + 1)
                    if r is not None:
                        return r
        return None

    def x_AnnAssign(self, st, env, module):
        if st.value is not None:
            self.assign(st.target, self.eval(st.value, env, module), env, module)

    def x_AugAssign(self, st, env, module):
        cur = self.eval(_as_load(st.target), env, module)
        rhs = self.eval(st.value, env, module)
        if isinstance(st.op, ast.BitOr) and isinstance(cur, set) and isinstance(rhs, (set, frozenset)):
            cur |= rhs
            return
        if isinstance(st.op, ast.Add) and isinstance(cur, list) and isinstance(rhs, (list, tuple)):
            cur.extend(rhs)
            return
        self.assign(st.target, self.binop(st.op, cur, rhs), env, module)

    def set_attr(self, o, attr, v):
        """`o.attr = v` as the user of the object writes it (runs a property setter if the class has one)"""
        setter = self._find_setter(o.cls, attr) if isinstance(o, Obj) and o.cls is not None else None
        if setter is not None:
            self.call_fi(setter, [o, v], {})
        else:
            o.fields[attr] = v

    def assign(self, t, v, env, module):
        if isinstance(t, ast.Name):
            # assign in the defining scope if nonlocal-ish closure var exists and not local
            env.vars[t.id] = v
        elif isinstance(t, ast.Attribute):
            o = self.eval(t.value, env, module)
            if isinstance(o, Obj):
                if o.cls is not None and ((o.cls.name, t.attr) in self.watch_fields or (o.cls.name, "*") in self.watch_fields):
                    self.event("write", o.cls.name, t.attr, o.fields.get(t.attr), v)
                if o.cls is not None and o.cls.is_dataclass():
                    fr = o.cls.dataclass_kwargs().get("frozen")
                    if isinstance(fr, ast.Constant) and fr.value is True:
                        raise PyRaise(ExcVal("FrozenInstanceError", (t.attr,)))
                setter = self._find_setter(o.cls, t.attr) if o.cls is not None else None
                if setter is not None:
                    self.call_fi(setter, [o, v], {})        # `obj.x = v` on a property runs its setter
                    return
                o.fields[t.attr] = v
            elif isinstance(o, Unknown):
                self.event("extwrite", o.sym, t.attr)
            else:
                raise Imprecise(f"attribute store on {o!r} at {module.rel}:{t.lineno}")
        elif isinstance(t, ast.Subscript):
            c = self.eval(t.value, env, module)
            k = self.eval(t.slice, env, module)
            if isinstance(c, (dict, list)):
                if isinstance(k, Unknown) and isinstance(c, list):
                    raise Imprecise(f"store with unknown index into list at {module.rel}:{t.lineno}")
                try:
                    c[k] = v
                except IndexError:
                    raise PyRaise(ExcVal("IndexError"))
            elif isinstance(c, Unknown):
                self.event("extwrite", c.sym, "[]")
            else:
                raise Imprecise(f"subscript store on {c!r}")
        elif isinstance(t, (ast.Tuple, ast.List)):
            if isinstance(v, Unknown):
                for i, e in enumerate(t.elts):
                    self.assign(e, self.fresh(f"{v.sym}[{i}]"), env, module)
                return
            vals = list(v) if isinstance(v, (list, tuple, set, frozenset, dict, str, range)) else list(self.iterate(v))
            star = [i for i, e in enumerate(t.elts) if isinstance(e, ast.Starred)]
            if star:
                i = star[0]
                after = len(t.elts) - i - 1
                if len(vals) < len(t.elts) - 1:
                    raise PyRaise(ExcVal("ValueError", ("unpack",)))
                for e, x in zip(t.elts[:i], vals[:i]):
                    self.assign(e, x, env, module)
                self.assign(t.elts[i].value, list(vals[i:len(vals) - after]), env, module)
                for e, x in zip(t.elts[i + 1:], vals[len(vals) - after:] if after else []):
                    self.assign(e, x, env, module)
                return
            if len(vals) != len(t.elts):
                raise PyRaise(ExcVal("ValueError", ("unpack",)))
            for e, x in zip(t.elts, vals):
                self.assign(e, x, env, module)
        else:
            raise Imprecise(f"assignment target {type(t).__name__}")

    def x_If(self, st, env, module):
        if self.truth(self.eval(st.test, env, module), short(st.test)):
            self.exec_block(st.body, env, module)
        else:
            self.exec_block(st.orelse, env, module)

    def x_Match(self, st, env, module):
        subj = self.eval(st.subject, env, module)
        for case in st.cases:
            binds = {}
            m = self._match(case.pattern, subj, binds, env, module)
            if m:
                for k, v in binds.items():
                    env.vars[k] = v
                if case.guard is not None and not self.truth(self.eval(case.guard, env, module), short(case.guard)):
                    continue
                self.exec_block(case.body, env, module)
                return

    def _match(self, pat, v, binds, env, module):
        if isinstance(pat, ast.MatchValue):
            r = self.compare(ast.Eq(), v, self.eval(pat.value, env, module))
            return self.truth(r, f"match {short(pat.value)}")
        if isinstance(pat, ast.MatchSingleton):
            return v is pat.value
        if isinstance(pat, ast.MatchAs):
            if pat.pattern is not None and not self._match(pat.pattern, v, binds, env, module):
                return False
            if pat.name is not None:
                binds[pat.name] = v
            return True
        if isinstance(pat, ast.MatchOr):
            for sub in pat.patterns:
                b2 = {}
                if self._match(sub, v, b2, env, module):
                    binds.update(b2)
                    return True
            return False
        if isinstance(pat, ast.MatchSequence):
            if isinstance(v, Unknown) or not isinstance(v, (list, tuple)):
                if isinstance(v, Unknown):
                    raise Imprecise(f"match of an unknown value against a sequence pattern at {module.rel}:{pat.lineno}")
                return False
            stars = [i for i, x in enumerate(pat.patterns) if isinstance(x, ast.MatchStar)]
            if not stars:
                if len(v) != len(pat.patterns):
                    return False
                return all(self._match(sp, x, binds, env, module) for sp, x in zip(pat.patterns, v))
            i = stars[0]
            before, after = pat.patterns[:i], pat.patterns[i + 1:]
            if len(v) < len(before) + len(after):
                return False
            ok = all(self._match(sp, x, binds, env, module) for sp, x in zip(before, v[:len(before)]))
            ok = ok and all(self._match(sp, x, binds, env, module) for sp, x in zip(after, v[len(v) - len(after):] if after else []))
            if ok and pat.patterns[i].name:
                binds[pat.patterns[i].name] = list(v[len(before):len(v) - len(after)])
            return ok
        if isinstance(pat, ast.MatchMapping):
            if not isinstance(v, dict):
                return False
            for k, sp in zip(pat.keys, pat.patterns):
                kv = self.eval(k, env, module)
                if kv not in v or not self._match(sp, v[kv], binds, env, module):
                    return False
            if pat.rest:
                binds[pat.rest] = {k: x for k, x in v.items() if k not in [self.eval(kk, env, module) for kk in pat.keys]}
            return True
        if isinstance(pat, ast.MatchClass):
            cref = self.eval(pat.cls, env, module)
            if isinstance(cref, ClassRef):
                if not (isinstance(v, Obj) and v.cls is not None and (v.cls is cref.ci or cref.ci in self._ancestors(v.cls))):
                    if isinstance(v, EnumVal) and v.cls is cref.ci and not pat.patterns and not pat.kwd_attrs:
                        return True
                    return False
                names = [f for f, _, _, _ in self._dc_fields(v.cls)]
                for i, sp in enumerate(pat.patterns):
                    if i >= len(names) or not self._match(sp, v.fields.get(names[i]), binds, env, module):
                        return False
                for a, sp in zip(pat.kwd_attrs, pat.kwd_patterns):
                    if not self._match(sp, self.getattr(v, a), binds, env, module):
                        return False
                return True
            if isinstance(cref, ExtRef) and cref.name in ("int", "str", "float", "bool", "list", "dict", "tuple", "set"):
                t = {"int": int, "str": str, "float": float, "bool": bool, "list": list, "dict": dict, "tuple": tuple, "set": set}[cref.name]
                if isinstance(v, Unknown):
                    raise Imprecise("match of an unknown value against a builtin class pattern")
                if not isinstance(v, t) or (t is int and isinstance(v, bool)):
                    return False
                return all(self._match(sp, v, binds, env, module) for sp in pat.patterns)
            raise Imprecise(f"class pattern {short(pat.cls)} at {module.rel}:{pat.lineno}")
        raise Imprecise(f"pattern {type(pat).__name__} at {module.rel}:{getattr(pat, 'lineno', '?')}")

    def _ancestors(self, ci, seen=()):
        out = []
        for b in ci.bases:
            for bc in self.p.classes.get(b, []):
                if bc.key not in seen:
                    out.append(bc)
                    out.extend(self._ancestors(bc, seen + (ci.key,)))
        return out

    def x_While(self, st, env, module):
        n = 0
        fresh_each = True          # did every iteration so far consult the oracle (a data-dependent loop over unknown input)?
        t_prev = len(self.o.taken)
        while True:
            cond = self.eval(st.test, env, module)
            if isinstance(cond, (Unknown, Iv)) and n >= 2:
                # a loop whose exit test stays unknown: explored for 0, 1 and 2 iterations only (recorded)
                self.truncated_loops += 1
                break
            if not self.truth(cond, short(st.test)):
                break
            if n:
                fresh_each = fresh_each and len(self.o.taken) > t_prev
            t_prev = len(self.o.taken)
            if n >= 3 and fresh_each:
                # `while True: … if <unknown>: break …` scanning unknown input: the paths that leave after 1, 2 and 3 rounds
                # are explored; the ones that stay longer repeat them and are dropped (recorded)
                self.truncated_loops += 1
                raise SkipPath(f"data-dependent loop at {module.rel}:{st.lineno} unrolled 3 times")
            n += 1
            if n > self.MAX_LOOP:
                if self.opaque_mutators:
                    raise Imprecise(f"while loop at {module.rel}:{st.lineno} reached the iteration bound after unmodelled external call(s) {sorted(set(self.opaque_mutators))} "
                                    f"received a mutable container: their effect on it is not modelled")
                raise Imprecise(f"while loop at {module.rel}:{st.lineno} exceeds {self.MAX_LOOP} iterations")
            try:
                self.exec_block(st.body, env, module)
            except _Break:
                return
            except _Continue:
                continue
        self.exec_block(st.orelse, env, module)

    def x_For(self, st, env, module):
        it = self.eval(st.iter, env, module)
        items = self.iter_lazy(it, f"{module.rel}:{st.lineno}")
        for x in items:
            self.assign(st.target, x, env, module)
            try:
                self.exec_block(st.body, env, module)
            except _Break:
                return
            except _Continue:
                continue
        self.exec_block(st.orelse, env, module)

    def iter_lazy(self, it, where_=""):
        """host-level iteration over an interpreted iterable; a called generator is advanced one element at a time"""
        if isinstance(it, _LazyGen):
            n = 0
            while True:
                kind, v = it.advance()
                if kind != "yield":
                    return
                n += 1
                if n > 4 * self.MAX_LOOP:
                    raise Imprecise(f"generator {it.qual} yields more than {4 * self.MAX_LOOP} items at {where_}")
                yield v
        elif isinstance(it, _OneShot):
            while it:
                yield it.pop(0)          # handed out one at a time: a `break` leaves the rest for the next loop over it
        elif isinstance(it, range) and len(it) > 2000 and getattr(self, "_search_depth", 0) > 0:
            # a search (`next(x for x in range(big) if …)`) over a long range: the first two candidates concretely, then one
            # symbolic candidate standing for any later one; if that is refused too, the search found nothing
            self.truncated_loops += 1
            yield it[0]
            yield it[1]
            yield Unknown(f"{it!r}[i]", kind="int")
        else:
            yield from self.iterate(it, where_)

    def _drained(self, v):
        if isinstance(v, _LazyGen):
            out = _Iter(self.iter_lazy(v))
            out.retval = v.retval
            return out
        return v

    def _gen_method(self, g, name, args):
        if name == "close":
            g.close()
            return None
        if name == "__next__":
            return self._next(g, [])
        if name == "send" and args and args[0] is None:
            return self._next(g, [])
        raise Imprecise(f"generator method {name} is not modelled")

    def _next(self, g, default):
        # `next(<generator>, default)` is a search: the generator is advanced to its first element only
        self._search_depth = getattr(self, "_search_depth", 0) + 1
        try:
            kind, v = g.advance()
        finally:
            self._search_depth -= 1
        if kind == "yield":
            return v
        if default:
            return default[0]
        raise PyRaise(ExcVal("StopIteration", (v,) if v is not None else ()))

    def iterate(self, it, where_=""):
        if isinstance(it, _LazyGen):
            return self._drained(it)
        if isinstance(it, _OneShot):
            items = list(it)          # a one-shot iterator handed in by a harness: what has been walked is gone
            del it[:]
            return items
        if isinstance(it, (list, tuple, set, frozenset)):
            return list(it)
        if isinstance(it, dict):
            return list(it.keys())
        if isinstance(it, range):
            if len(it) > 2000:
                raise Imprecise(f"range too long at {where_}")
            return list(it)
        if isinstance(it, str):
            return list(it)
        if isinstance(it, _DictView):
            return it.items()
        if isinstance(it, ClassRef) and it.ci.is_enum():
            return self.enum_members(it.ci)
        if isinstance(it, Obj) and it.cls is not None and self._is_namedtuple(it.cls):
            return [it.fields[f] for f, _, _, _ in self._dc_fields(it.cls)]
        if isinstance(it, Obj) and it.cls is not None and self.p.find_method(it.cls, "__iter__") is not None:
            return self.iterate(self.call_fi(self.p.find_method(it.cls, "__iter__"), [it], {}), where_)
        if isinstance(it, Unknown):
            # unknown collection: 0, 1 or 2 unknown elements
            n = self.o.choose(self.max_unknown_len + 1, f"len({it.sym})", key=("len", it.sym))
            return [Unknown(f"{it.sym}[{i}]") for i in range(n)]
        raise Imprecise(f"cannot iterate {it!r} at {where_}")

    def x_With(self, st, env, module):
        self._with_items(list(st.items), st.body, env, module)

    def _with_items(self, items, body, env, module):
        """`with a as x, b as y: body` — context-manager protocol for the repo's own managers (classes with
        __enter__/__exit__, @contextmanager generator functions, contextlib.suppress); locks and unknown managers are
        entered trivially"""
        if not items:
            self.exec_block(body, env, module)
            return
        item, rest = items[0], items[1:]
        v = self.eval(item.context_expr, env, module)

        def inner():
            self._with_items(rest, body, env, module)
        if isinstance(v, _GenCM):
            # run the generator function; its `yield` runs the with-body in place, so the body's exceptions travel
            # through the generator's own try/except/finally exactly as gen.throw() would deliver them
            state = {"ran": False}

            def at_yield(value):
                if state["ran"]:
                    raise PyRaise(ExcVal("RuntimeError", ("generator didn't stop",)))
                state["ran"] = True
                if item.optional_vars is not None:
                    self.assign(item.optional_vars, value, env, module)
                try:
                    inner()
                except (_Return, _Break, _Continue) as cf:
                    raise _BodyExit(cf)
            v.env.vars["__yielded__"] = at_yield
            carried = None
            try:
                try:
                    self.exec_block(v.func.node.body, v.env, v.func.module)
                except _Return:
                    pass
            except _BodyExit as be:
                carried = be.cf
            if not state["ran"]:
                raise PyRaise(ExcVal("RuntimeError", ("generator didn't yield",)))
            if carried is not None:
                raise carried
            return
        if isinstance(v, _Suppress):
            try:
                if item.optional_vars is not None:
                    self.assign(item.optional_vars, None, env, module)
                inner()
            except PyRaise as pr:
                anc = self.exc_ancestors(pr.exc) | {getattr(pr.exc, "clsname", "")}
                if not (anc & set(v.names)) and "Exception" not in v.names and "BaseException" not in v.names:
                    raise
            return
        if isinstance(v, Obj) and v.cls is not None and self.p.find_method(v.cls, "__enter__") is not None:
            entered = self.call_fi(self.p.find_method(v.cls, "__enter__"), [v], {})
            if item.optional_vars is not None:
                self.assign(item.optional_vars, entered, env, module)
            ex = self.p.find_method(v.cls, "__exit__")
            try:
                inner()
            except PyRaise as pr:
                r = self.call_fi(ex, [v, ExtRef(getattr(pr.exc, "clsname", "Exception")), pr.exc, None], {}) if ex is not None else None
                if r is not None and self.truth(r, "__exit__ suppresses"):
                    return
                raise
            except (_Return, _Break, _Continue):
                if ex is not None:
                    self.call_fi(ex, [v, None, None, None], {})
                raise
            if ex is not None:
                self.call_fi(ex, [v, None, None, None], {})
            return
        if isinstance(v, Obj) and v.cls is None:
            self.event("sync", v.tag, "__enter__")
            if item.optional_vars is not None:
                self.assign(item.optional_vars, v, env, module)
            try:
                inner()
            finally:
                self.event("sync", v.tag, "__exit__")
            return
        if item.optional_vars is not None:
            self.assign(item.optional_vars, v, env, module)
        inner()

    def x_Try(self, st, env, module):
        try:
            try:
                self.exec_block(st.body, env, module)
            except PyRaise as pr:
                for h in st.handlers:
                    if self._handler_matches(h, pr.exc, env, module):
                        henv = env
                        if h.name:
                            env.vars[h.name] = pr.exc
                        env.vars["__exc__"] = pr.exc
                        self.exec_block(h.body, henv, module)
                        break
                else:
                    raise
            else:
                self.exec_block(st.orelse, env, module)
        finally:
            if st.finalbody:
                self.exec_block(st.finalbody, env, module)

    def exc_ancestors(self, exc):
        out = set()
        if isinstance(exc, Obj) and exc.cls is not None:
            todo = [exc.cls]
            while todo:
                c = todo.pop()
                out.add(c.name)
                for b in c.bases:
                    bcs = self.p.classes.get(b, [])
                    if bcs:
                        todo.extend(bcs)
                    else:
                        out |= self._builtin_anc(b)
            return out
        if isinstance(exc, ExcVal):
            return self._builtin_anc(exc.clsname)
        return {"Exception", "BaseException"}

    def _builtin_anc(self, name):
        out = {name}
        b = getattr(_b, name, None)
        if isinstance(b, type) and issubclass(b, BaseException):
            out |= {c.__name__ for c in b.__mro__}
        else:
            for x in EXC_BASES.get(name, []):
                out |= self._builtin_anc(x)
            out |= {"Exception", "BaseException"}
        return out

    def _handler_matches(self, h, exc, env, module):
        if h.type is None:
            return True
        elts = h.type.elts if isinstance(h.type, ast.Tuple) else [h.type]
        anc = self.exc_ancestors(exc)
        for e in elts:
            d = dotted(e)
            if d and d.split(".")[-1] in anc:
                return True
        return False

    # ------------------------------------------------------------ expressions
    def eval(self, e, env, module):
        m = getattr(self, "e_" + type(e).__name__, None)
        if m is None:
            raise Imprecise(f"expression {type(e).__name__} at {module.rel}:{getattr(e, 'lineno', '?')}")
        return m(e, env, module)

    def e_Constant(self, e, env, module):
        return e.value

    def e_Name(self, e, env, module):
        ok, v = env.lookup(e.id)
        if ok:
            if isinstance(v, tuple) and len(v) == 3 and v[0] == "lazy" and isinstance(v[1], ast.AST):
                return self.global_name(e.id, v[2])      # module-level name not evaluated yet
            return v
        if e.id in ("True", "False", "None"):
            return {"True": True, "False": False, "None": None}[e.id]
        try:
            return self.global_name(e.id, module)
        except Imprecise:
            # a name the enclosing function assigns somewhere, read on a path that has not assigned it: Python raises
            # UnboundLocalError (`result` after an exception skipped `result = work()`)
            from .loader import parent as _parent
            fn = _parent(e)
            while fn is not None and not isinstance(fn, (ast.FunctionDef, ast.AsyncFunctionDef, ast.Lambda)):
                fn = _parent(fn)
            if isinstance(fn, (ast.FunctionDef, ast.AsyncFunctionDef)) and any(
                    isinstance(y, ast.Name) and y.id == e.id and isinstance(y.ctx, ast.Store) for y in ast.walk(fn)):
                raise PyRaise(ExcVal("UnboundLocalError", (f"cannot access local variable '{e.id}' where it is not associated with a value",)))
            raise

    def e_JoinedStr(self, e, env, module):
        parts = []
        unknown = False
        for v in e.values:
            if isinstance(v, ast.Constant):
                parts.append(str(v.value))
            else:
                x = self.eval(v.value, env, module)
                if isinstance(x, (str, int, float, bool)) or x is None:
                    try:
                        parts.append(format(x, self._fmt(v)))
                    except Exception:      # noqa: BLE001 - a format spec that does not fit the value
                        unknown = True
                        parts.append("{" + _sym(x) + "}")
                else:
                    unknown = True
                    parts.append("{" + _sym(x) + "}")
        if unknown:
            # the literal parts and the operands stay visible in the symbol (the text is a pure function of them)
            return Unknown("f⟨" + "".join(parts) + "⟩")
        return "".join(parts)

    def _fmt(self, fv):
        if fv.format_spec is None:
            return ""
        try:
            return "".join(str(x.value) for x in fv.format_spec.values if isinstance(x, ast.Constant))
        except Exception:
            return ""

    def e_List(self, e, env, module):
        out = []
        for x in e.elts:
            if isinstance(x, ast.Starred):
                out.extend(self.iterate(self.eval(x.value, env, module)))
            else:
                out.append(self.eval(x, env, module))
        return out

    def e_Tuple(self, e, env, module):
        return tuple(self.e_List(e, env, module))

    def e_Set(self, e, env, module):
        return set(self.e_List(e, env, module))

    def e_Dict(self, e, env, module):
        out = {}
        for k, v in zip(e.keys, e.values):
            if k is None:
                d = self.eval(v, env, module)
                if isinstance(d, dict):
                    out.update(d)
                elif isinstance(d, Unknown):
                    # an unknown mapping spread into a display: the result is an unknown mapping built from it
                    rest = {self.eval(k2, env, module) if k2 is not None else None: self.eval(v2, env, module) for k2, v2 in zip(e.keys, e.values) if v2 is not v}
                    return Unknown("{**" + d.sym + "".join(f", {_sym(a)}: {_sym(b)}" for a, b in rest.items() if a is not None) + "}")
                else:
                    raise Imprecise("** of non-dict in dict literal")
            else:
                out[self.eval(k, env, module)] = self.eval(v, env, module)
        return out

    def e_Lambda(self, e, env, module):
        return self._closure(e, env, module)

    def e_IfExp(self, e, env, module):
        if self.truth(self.eval(e.test, env, module), short(e.test)):
            return self.eval(e.body, env, module)
        return self.eval(e.orelse, env, module)

    def e_NamedExpr(self, e, env, module):
        v = self.eval(e.value, env, module)
        self.assign(e.target, v, env, module)
        return v

    def e_BoolOp(self, e, env, module):
        last = None
        for i, x in enumerate(e.values):
            last = self.eval(x, env, module)
            if i == len(e.values) - 1:
                return last
            t = self.truth(last, short(x))
            if isinstance(e.op, ast.And) and not t:
                return last
            if isinstance(e.op, ast.Or) and t:
                return last
        return last

    def e_UnaryOp(self, e, env, module):
        v = self.eval(e.operand, env, module)
        if isinstance(e.op, ast.Not):
            if isinstance(v, Unknown):
                return Unknown(v.sym, not v.neg)
            return not self.truth(v)
        if isinstance(v, Unknown):
            return Unknown(f"({type(e.op).__name__} {v.sym})")
        if type(v).__name__ == "Lin":
            return v.scale(-1) if isinstance(e.op, ast.USub) else v
        if isinstance(e.op, ast.USub):
            return -v
        if isinstance(e.op, ast.UAdd):
            return +v
        if isinstance(e.op, ast.Invert):
            return ~v
        raise Imprecise("unary op")

    def e_BinOp(self, e, env, module):
        return self.binop(e.op, self.eval(e.left, env, module), self.eval(e.right, env, module))

    _OPS = {ast.Add: operator.add, ast.Sub: operator.sub, ast.Mult: operator.mul, ast.Div: operator.truediv,
            ast.FloorDiv: operator.floordiv, ast.Mod: operator.mod, ast.Pow: operator.pow, ast.BitOr: operator.or_,
            ast.BitAnd: operator.and_, ast.BitXor: operator.xor, ast.LShift: operator.lshift, ast.RShift: operator.rshift}

    def binop(self, op, a, b):
        if isinstance(a, EnumVal) and isinstance(a.value, (int, float)) and "IntEnum" in a.cls.bases:
            a = a.value
        if isinstance(b, EnumVal) and isinstance(b.value, (int, float)) and "IntEnum" in b.cls.bases:
            b = b.value
        if (isinstance(a, Iv) or isinstance(b, Iv)) and all(isinstance(x, (Iv, int, float)) for x in (a, b)):
            r = iv_binop(op, a, b)
            if r is not None:
                return r
        if isinstance(a, Unknown) or isinstance(b, Unknown):
            sa = a.sym if isinstance(a, Unknown) else repr(a)
            sb = b.sym if isinstance(b, Unknown) else repr(b)
            return Unknown(f"({sa} {type(op).__name__} {sb})")
        if _opaque(a) or _opaque(b):
            return Unknown(f"({_sym(a)} {type(op).__name__} {_sym(b)})")
        try:
            return self._OPS[type(op)](a, b)
        except ZeroDivisionError:
            raise PyRaise(ExcVal("ZeroDivisionError"))
        except TypeError as ex:
            raise PyRaise(ExcVal("TypeError", (str(ex),)))
        except (OverflowError, ValueError) as ex:
            raise PyRaise(ExcVal(type(ex).__name__, (str(ex),)))

    def e_Compare(self, e, env, module):
        left = self.eval(e.left, env, module)
        result = True
        for op, c in zip(e.ops, e.comparators):
            right = self.eval(c, env, module)
            r = self.compare(op, left, right, f"{short(e)}")
            if len(e.ops) == 1:
                return r
            if not self.truth(r, short(e)):
                return False
            left = right
        return result

    def compare(self, op, a, b, label=""):
        if isinstance(op, (ast.Is, ast.IsNot)):
            if isinstance(a, Unknown) or isinstance(b, Unknown):
                other, u_ = (b, a) if isinstance(a, Unknown) else (a, b)
                if a is b:
                    r = True
                elif other is None and not u_.neg and (u_.sym.startswith(_NEVER_NONE) or u_.kind is not None):
                    # the value of a constructor / conversion that never returns None (tuple(x), str(x), len(x), an f-string …)
                    r = False
                else:
                    sa = a.sym if isinstance(a, Unknown) else repr(a)
                    sb = b.sym if isinstance(b, Unknown) else repr(b)
                    u = Unknown(f"({sa} is {sb})")
                    return Unknown(u.sym, True) if isinstance(op, ast.IsNot) else u
            elif a is None or b is None or isinstance(a, bool) or isinstance(b, bool):
                r = a is b
            elif isinstance(a, EnumVal) or isinstance(b, EnumVal):
                r = a == b
            elif isinstance(a, (ClassRef, ExtRef)) and isinstance(b, (ClassRef, ExtRef)):
                r = (a == b) if type(a) is type(b) else False      # class objects are singletons
            else:
                r = a is b
            return r if isinstance(op, ast.Is) else (not r)
        if isinstance(op, (ast.In, ast.NotIn)):
            r = self._contains(b, a)
            if isinstance(r, Unknown):
                return Unknown(r.sym, not r.neg) if isinstance(op, ast.NotIn) else r
            return r if isinstance(op, ast.In) else (not r)
        # ordering on IntEnum
        if isinstance(a, EnumVal) and isinstance(b, EnumVal) and not isinstance(op, (ast.Eq, ast.NotEq)):
            a, b = a.value, b.value
        if isinstance(a, EnumVal) and isinstance(b, (int, float)) and not isinstance(b, bool) and "IntEnum" in a.cls.bases:
            a = a.value
        if isinstance(b, EnumVal) and isinstance(a, (int, float)) and not isinstance(a, bool) and "IntEnum" in b.cls.bases:
            b = b.value
        if (isinstance(a, Iv) or isinstance(b, Iv)) and all(isinstance(x, (Iv, int, float)) for x in (a, b)):
            r = iv_compare(op, a, b)
            if r is not None:
                return r
            self.undecided_numeric += 1
            canon = {ast.Eq: ("==", False), ast.NotEq: ("==", True), ast.Lt: ("<", False), ast.GtE: ("<", True),
                     ast.Gt: (">", False), ast.LtE: (">", True)}[type(op)]
            return Unknown(f"({_sym(a)} {canon[0]} {_sym(b)})", canon[1])
        if isinstance(a, Unknown) or isinstance(b, Unknown):
            # `max(x, c)` is at least c and `min(x, c)` at most c: comparisons that this alone decides are decided
            bnd = getattr(self, "_bounds", {})
            for u_, c_, flip in ((a, b, False), (b, a, True)):
                if isinstance(u_, Unknown) and not isinstance(c_, Unknown) and u_.sym in bnd and isinstance(op, (ast.Lt, ast.LtE, ast.Gt, ast.GtE)):
                    lo_, hi_ = bnd[u_.sym]
                    kind_ = type(op)
                    if flip:
                        kind_ = {ast.Lt: ast.Gt, ast.Gt: ast.Lt, ast.LtE: ast.GtE, ast.GtE: ast.LtE}[kind_]       # c REL u  ==  u REL' c
                    try:
                        if lo_ is not None:
                            if kind_ is ast.Gt and lo_ > c_ or kind_ is ast.GtE and lo_ >= c_:
                                return True
                            if kind_ is ast.Lt and lo_ >= c_ or kind_ is ast.LtE and lo_ > c_:
                                return False
                        if hi_ is not None:
                            if kind_ is ast.Lt and hi_ < c_ or kind_ is ast.LtE and hi_ <= c_:
                                return True
                            if kind_ is ast.Gt and hi_ <= c_ or kind_ is ast.GtE and hi_ < c_:
                                return False
                    except TypeError:
                        pass
            sa = a.sym if isinstance(a, Unknown) else repr(a)
            sb = b.sym if isinstance(b, Unknown) else repr(b)
            if isinstance(a, Unknown) and isinstance(b, Unknown) and a == b and isinstance(op, (ast.Eq, ast.LtE, ast.GtE)):
                return True
            if isinstance(a, Unknown) and isinstance(b, Unknown) and a == b and isinstance(op, (ast.NotEq, ast.Lt, ast.Gt)):
                return False
            canon = {ast.Eq: ("==", False), ast.NotEq: ("==", True), ast.Lt: ("<", False), ast.GtE: ("<", True),
                     ast.Gt: (">", False), ast.LtE: (">", True)}[type(op)]
            return Unknown(f"({sa} {canon[0]} {sb})", canon[1])
        if isinstance(op, (ast.Eq, ast.NotEq)):
            r = self._eq(a, b)
            if isinstance(r, Unknown):
                return Unknown(r.sym, not r.neg) if isinstance(op, ast.NotEq) else r
            return r if isinstance(op, ast.Eq) else (not r)
        if _opaque(a) or _opaque(b):
            return self.fresh("cmp")
        if isinstance(a, _DictView) or isinstance(b, _DictView):
            # keys()/items() views compare as sets
            sa = set(a.items()) if isinstance(a, _DictView) else (set(a) if isinstance(a, (set, frozenset)) else None)
            sb = set(b.items()) if isinstance(b, _DictView) else (set(b) if isinstance(b, (set, frozenset)) else None)
            if sa is None or sb is None:
                raise Imprecise(f"comparison of a dict view with {type(a).__name__ if sa is None else type(b).__name__}")
            a, b = sa, sb
        try:
            return {ast.Lt: operator.lt, ast.LtE: operator.le, ast.Gt: operator.gt, ast.GtE: operator.ge}[type(op)](a, b)
        except TypeError as ex:
            raise PyRaise(ExcVal("TypeError", (str(ex),)))

    def _eq(self, a, b):
        if isinstance(a, EnumVal) or isinstance(b, EnumVal):
            if isinstance(a, EnumVal) and isinstance(b, EnumVal):
                return a == b
            ev, other = (a, b) if isinstance(a, EnumVal) else (b, a)
            if any(x in ev.cls.bases for x in ("IntEnum", "StrEnum")) or ("str" in ev.cls.bases) or ("int" in ev.cls.bases):
                return ev.value == other
            return False
        if isinstance(a, Obj) or isinstance(b, Obj):
            if isinstance(a, Obj) and isinstance(b, Obj) and a.cls is b.cls and a.cls is not None and a.cls.is_dataclass():
                if a is b:
                    return True
                unknown = []
                for k in sorted(set(a.fields) | set(b.fields)):
                    x, y = a.fields.get(k), b.fields.get(k)
                    if isinstance(x, Unknown) or isinstance(y, Unknown):
                        if not (isinstance(x, Unknown) and isinstance(y, Unknown) and x == y):
                            unknown.append(f"{_sym(x)} == {_sym(y)}")
                        continue
                    r = self._eq(x, y)
                    if isinstance(r, Unknown):
                        unknown.append(r.sym)
                    elif not r:
                        return False
                if unknown:
                    return Unknown("(" + " and ".join(unknown) + ")")
                return True
            return a is b
        try:
            return a == b
        except Exception:
            return a is b

    def _contains(self, cont, item):
        if isinstance(item, Unknown) and isinstance(cont, dict) and item in cont:
            return True
        if isinstance(item, Unknown) and isinstance(cont, (list, tuple, set, frozenset)) and any(isinstance(x, Unknown) and x == item for x in cont):
            return True
        if isinstance(cont, Unknown) or (isinstance(item, Unknown) and not isinstance(cont, (str,))):
            sc = cont.sym if isinstance(cont, Unknown) else repr(cont)[:40]
            si = item.sym if isinstance(item, Unknown) else repr(item)
            if isinstance(cont, (list, tuple, set, frozenset, dict)) and len(cont) == 0:
                return False
            return Unknown(f"({si} in {sc})")
        if isinstance(cont, _DictView):
            cont = cont.items()
        if isinstance(cont, (list, tuple, set, frozenset)):
            return any(self._eq(x, item) for x in cont)
        if isinstance(cont, dict):
            try:
                return item in cont
            except TypeError:
                return False
        if isinstance(cont, str):
            if isinstance(item, str):
                return item in cont
            return Unknown(f"({item!r} in str)")
        if isinstance(cont, Obj) and cont.cls is not None:
            m = self.p.find_method(cont.cls, "__contains__")
            if m:
                return self.call_fi(m, [cont, item], {})
        raise Imprecise(f"`in` on {cont!r}")

    def e_Attribute(self, e, env, module):
        o = self.eval(e.value, env, module)
        return self.getattr(o, e.attr, f"{module.rel}:{e.lineno}")

    def getattr(self, o, attr, where_=""):
        if isinstance(o, Obj):
            if attr in o.fields:
                if self.field_reads is not None and o.cls is not None:
                    self.field_reads.add((o.cls.name, attr))
                return o.fields[attr]
            if o.cls is not None:
                m = self.p.find_method(o.cls, attr)
                if m is not None:
                    if any((isinstance(d, ast.Name) and d.id in ("property", "cached_property")) or (isinstance(d, ast.Attribute) and d.attr == "cached_property") for d in m.node.decorator_list):
                        return self.call_fi(m, [o], {})
                    if any(isinstance(d, ast.Name) and d.id == "staticmethod" for d in m.node.decorator_list):
                        return Func(m.node, m.module, None, None, m, m.cls)
                    if any(isinstance(d, ast.Name) and d.id == "classmethod" for d in m.node.decorator_list):
                        return Func(m.node, m.module, None, ClassRef(o.cls), m, m.cls)
                    return Func(m.node, m.module, None, o, m, m.cls)
                v = self._class_attr(o.cls, attr)
                if v is not _MISSING:
                    return v
                if attr == "__class__":
                    return ClassRef(o.cls)
                if attr == "__dict__":
                    return o.fields          # the instance dictionary is the record itself (live)
                if attr == "args" and self._is_exception(o.cls):
                    return o.fields.get("args", ())
            if o.cls is not None and self._is_namedtuple(o.cls) and attr in ("_replace", "_asdict", "_fields"):
                if attr == "_fields":
                    return tuple(f for f, _, _, _ in self._dc_fields(o.cls))
                return BoundBuiltin(o, attr)
            if o.cls is None and o.tag in ("Lock", "RLock", "Condition", "Semaphore", "Event") and attr in ("acquire", "release", "locked", "__enter__", "__exit__", "set", "clear", "is_set", "wait", "notify", "notify_all"):
                return BoundBuiltin(o, attr)
            raise PyRaise(ExcVal("AttributeError", (f"{o!r} has no attribute {attr}",)))
        if isinstance(o, ClassRef):
            if o.ci.is_enum():
                mem = self.enum_member(o.ci, attr)
                if mem is not None:
                    return mem
            v = self._class_attr(o.ci, attr)
            if v is not _MISSING:
                return v
            m = self.p.find_method(o.ci, attr)
            if m is not None:
                if any(isinstance(d, ast.Name) and d.id == "classmethod" for d in m.node.decorator_list):
                    return Func(m.node, m.module, None, o, m, m.cls)
                return Func(m.node, m.module, None, None, m, m.cls)
            if attr == "__name__":
                return o.ci.name
            raise PyRaise(ExcVal("AttributeError", (f"class {o.ci.name} has no attribute {attr}",)))
        if isinstance(o, EnumVal):
            if attr == "value":
                return o.value
            if attr == "name":
                return o.name
            m = self.p.find_method(o.cls, attr)
            if m is not None:
                if any((isinstance(d, ast.Name) and d.id in ("property", "cached_property")) or (isinstance(d, ast.Attribute) and d.attr == "cached_property") for d in m.node.decorator_list):
                    return self.call_fi(m, [o], {})
                return Func(m.node, m.module, None, o, m, m.cls)
            raise PyRaise(ExcVal("AttributeError", (attr,)))
        if isinstance(o, Unknown):
            return Unknown(f"{o.sym}.{attr}", meth=True)
        if isinstance(o, ExtRef) and attr == "__name__":
            return o.name.split(".")[-1]
        if isinstance(o, ExtRef):
            if o.name == "math" and isinstance(getattr(math, attr, None), (int, float)):
                return getattr(math, attr)
            return ExtRef(f"{o.name}.{attr}")
        if isinstance(o, ast.AST):
            # host object: a Python ast node handed to the interpreted code as data
            if hasattr(o, attr):
                self.host_reads.add((type(o).__name__, attr))
                return getattr(o, attr)
            raise PyRaise(ExcVal("AttributeError", (f"{type(o).__name__} has no attribute {attr}",)))
        if isinstance(o, ExcVal):
            if attr == "args":
                return o.args
            if attr == "value" and o.clsname == "StopIteration":
                return o.args[0] if o.args else None
            return self.fresh(f"exc.{attr}")
        if isinstance(o, Func):
            if attr == "__wrapped__":
                return o             # functools wrappers (lru_cache, wraps): the undecorated function is this one
            if attr in ("cache_clear", "cache_info"):
                return BoundBuiltin(None, "noop") if False else self.fresh(f"func.{attr}")
            if attr == "__name__":
                return getattr(o.node, "name", "<lambda>")
            return self.fresh(f"func.{attr}")
        if isinstance(o, _Deque) and attr == "maxlen":
            return o.maxlen
        if isinstance(o, _DefaultDict) and attr == "default_factory":
            return o.factory
        if isinstance(o, (str, list, dict, set, tuple, int, float, frozenset, _DictView)) or o is None:
            if o is None:
                raise PyRaise(ExcVal("AttributeError", (f"None has no attribute {attr}",)))
            return BoundBuiltin(o, attr)
        raise Imprecise(f"attribute {attr} of {o!r} at {where_}")

    def _class_body_env(self, ci, skip=None):
        """names visible while a class-level assignment is evaluated: the class's methods (as plain functions) and
        its other class-level names (lazily), over the module environment"""
        interp = self

        class _ClassEnv(Env):
            def lookup(self_env, name):
                if name in self_env.vars:
                    return True, self_env.vars[name]
                if name != skip and name in ci.assigns:
                    v = interp._class_attr(ci, name)
                    if v is not _MISSING:
                        return True, v
                if name in ci.methods:
                    m = ci.methods[name]
                    return True, Func(m.node, m.module, None, None, m, m.cls)
                return Env.lookup(self_env, name)
        return _ClassEnv(self.module_env(ci.module))

    def _class_attr(self, ci, attr, seen=()):
        if attr in ci.assigns:
            v = ci.assigns[attr]
            if isinstance(v, ast.Call) and (dotted(v.func) or "").split(".")[-1] == "field":
                return _MISSING
            return self.eval(v, self._class_body_env(ci, attr), ci.module)
        for b in ci.bases:
            for bc in self.p.classes.get(b, []):
                if bc.key not in seen:
                    r = self._class_attr(bc, attr, seen + (ci.key,))
                    if r is not _MISSING:
                        return r
        return _MISSING

    def e_Subscript(self, e, env, module):
        c = self.eval(e.value, env, module)
        if isinstance(e.slice, ast.Slice):
            lo = self.eval(e.slice.lower, env, module) if e.slice.lower else None
            hi = self.eval(e.slice.upper, env, module) if e.slice.upper else None
            stp = self.eval(e.slice.step, env, module) if e.slice.step else None
            if isinstance(c, Unknown) or any(isinstance(x, Unknown) for x in (lo, hi, stp)):
                return Unknown(f"{_sym(c)}[{'' if lo is None else _sym(lo)}:{'' if hi is None else _sym(hi)}]")
            try:
                return c[lo:hi:stp]
            except TypeError:
                if isinstance(c, (Func, Obj, BoundBuiltin, ClassRef, ExtRef)) or _opaque(c):
                    return Unknown(f"{_sym(c)}[{'' if lo is None else _sym(lo)}:{'' if hi is None else _sym(hi)}]")
                raise Imprecise(f"slice of {type(c).__name__} at {module.rel}:{e.lineno}")
        k = self.eval(e.slice, env, module)
        return self._getitem(c, k, f"{module.rel}:{e.lineno}")

    def _getitem(self, c, k, at="?"):
        """c[k] for an index or key (not a slice)"""
        if isinstance(c, Unknown):
            return Unknown(f"{c.sym}[{k.sym if isinstance(k, Unknown) else k!r}]")
        if isinstance(c, ClassRef) and c.ci.is_enum():
            mem = self.enum_member(c.ci, k)
            if mem is None:
                raise PyRaise(ExcVal("KeyError", (k,)))
            return mem
        if isinstance(k, Unknown) and isinstance(c, dict) and k in c:
            return c[k]
        if isinstance(c, dict) and c and (isinstance(k, Unknown) or (isinstance(k, tuple) and any(isinstance(x, Unknown) for x in k))):
            # a truth table (keys are booleans / tuples of booleans) indexed by the outcome of tests: each unknown
            # outcome is decided by the oracle, as it would be in the `if` the table replaces
            keys = list(c)
            if all(isinstance(x, bool) for x in keys) and isinstance(k, Unknown):
                k = self.truth(k)
            elif isinstance(k, tuple) and all(isinstance(x, tuple) and len(x) == len(k) and all(isinstance(y, bool) for y in x) for x in keys):
                k = tuple(self.truth(x) if isinstance(x, Unknown) else x for x in k)
        if isinstance(k, Unknown):
            if isinstance(c, (dict, list, tuple)) and len(c) == 0:
                raise PyRaise(ExcVal("KeyError" if isinstance(c, dict) else "IndexError", (k,)))
            return self.fresh("item")
        if isinstance(c, _DefaultDict) and not isinstance(k, Unknown):
            try:
                if k not in c and c.factory is _ZERO:
                    return 0
                if k not in c:
                    if c.factory is None:
                        raise PyRaise(ExcVal("KeyError", (k,)))
                    c[k] = self.call(c.factory, [], {})
                return c[k]
            except TypeError as ex:
                raise PyRaise(ExcVal("TypeError", (str(ex),)))
        if isinstance(c, (list, tuple, str, dict)):
            try:
                return c[k]
            except (KeyError, IndexError, TypeError) as ex:
                raise PyRaise(ExcVal(type(ex).__name__, (k,)))
        if isinstance(c, Obj) and c.cls is not None and self._is_namedtuple(c.cls) and isinstance(k, int):
            names = [f for f, _, _, _ in self._dc_fields(c.cls)]
            try:
                return c.fields[names[k]]
            except IndexError:
                raise PyRaise(ExcVal("IndexError", (k,)))
        if isinstance(c, Obj) and c.cls is not None and self.p.find_method(c.cls, "__getitem__") is not None:
            return self.call_fi(self.p.find_method(c.cls, "__getitem__"), [c, k], {})
        if isinstance(c, ExtRef):
            return ExtRef(f"{c.name}[…]")
        raise Imprecise(f"subscript of {c!r} at {at}")

    def _comp(self, gens, env, module, emit):
        def rec(i, env2):
            if i == len(gens):
                emit(env2)
                return
            g = gens[i]
            for x in self.iter_lazy(self.eval(g.iter, env2, module)):
                e3 = Env(env2)
                self.assign(g.target, x, e3, module)
                if all(self.truth(self.eval(c, e3, module), short(c)) for c in g.ifs):
                    rec(i + 1, e3)
        rec(0, env)

    def e_ListComp(self, e, env, module):
        out = []
        self._comp(e.generators, env, module, lambda e2: out.append(self.eval(e.elt, e2, module)))
        return out

    def e_GeneratorExp(self, e, env, module):
        # lazy, like Python's: the outermost iterable is evaluated now, everything else on demand
        first = self.eval(e.generators[0].iter, env, module)

        def run_body(emit):
            def rec(i, env2):
                if i == len(e.generators):
                    emit(self.eval(e.elt, env2, module))
                    return
                g = e.generators[i]
                src_ = first if i == 0 else self.eval(g.iter, env2, module)
                for x in self.iter_lazy(src_):
                    e3 = Env(env2)
                    self.assign(g.target, x, e3, module)
                    if all(self.truth(self.eval(c, e3, module), short(c)) for c in g.ifs):
                        rec(i + 1, e3)
            rec(0, env)
            return None
        return _LazyGen(run_body, f"<genexpr {module.rel}:{e.lineno}>")

    def e_SetComp(self, e, env, module):
        return set(self.e_ListComp(e, env, module))

    def e_DictComp(self, e, env, module):
        out = {}

        def emit(e2):
            out[self.eval(e.key, e2, module)] = self.eval(e.value, e2, module)
        self._comp(e.generators, env, module, emit)
        return out

    def e_Call(self, e, env, module):
        self.call_stack.append((module.rel, e.lineno))
        try:
            return self._e_call(e, env, module)
        finally:
            self.call_stack.pop()

    def _e_call(self, e, env, module):
        f = self.eval(e.func, env, module)
        args = []
        for a in e.args:
            if isinstance(a, ast.Starred):
                args.extend(self.iterate(self.eval(a.value, env, module)))
            else:
                args.append(self.eval(a, env, module))
        kwargs = {}
        for k in e.keywords:
            if k.arg is None:
                d = self.eval(k.value, env, module)
                if isinstance(d, dict):
                    kwargs.update(d)
                elif isinstance(d, Unknown):
                    kwargs["**"] = d
                else:
                    raise Imprecise("** of non-dict")
            else:
                kwargs[k.arg] = self.eval(k.value, env, module)
        # super().__init__(...)
        if isinstance(e.func, ast.Attribute) and isinstance(e.func.value, ast.Call) and isinstance(e.func.value.func, ast.Name) and e.func.value.func.id == "super":
            ok, selfv = env.lookup("self")
            cur = self._enclosing_class(e)
            if ok and cur is not None:
                for b in cur.bases:
                    for bc in self.p.classes.get(b, []):
                        m = self.p.find_method(bc, e.func.attr)
                        if m:
                            return self.call_fi(m, [selfv] + args, kwargs)
                return None
        return self.call(f, args, kwargs)

    def _enclosing_class(self, n):
        from .loader import parent
        q = parent(n)
        while q is not None and not isinstance(q, ast.ClassDef):
            q = parent(q)
        if q is None:
            return None
        for ci in self.p.classes.get(q.name, []):
            if ci.node is q:
                return ci
        return None

    # ------------------------------------------------------------ builtins
    def _ext_call(self, name, args, kwargs):
        if name in self.ext_stubs:
            return self.ext_stubs[name](self, args, kwargs)
        if name == "ast.parse" and args and isinstance(args[0], str):
            # parsing a literal text is constant folding: the host parser is the reference
            try:
                return ast.parse(args[0], mode=kwargs.get("mode", args[2] if len(args) > 2 else "exec"))
            except SyntaxError as ex:
                raise PyRaise(ExcVal("SyntaxError", (str(ex),)))
            except (ValueError, RecursionError, MemoryError) as ex:
                raise PyRaise(ExcVal(type(ex).__name__, (str(ex),)))
        if name in ("functools.lru_cache", "lru_cache", "functools.cache", "cache", "functools.wraps", "wraps"):
            # memoisation / metadata decorators: the decorated function computes what it computes (what a cache *shares*
            # between calls is judged by structural rules, not by the interpretation)
            if name.endswith("wraps"):
                return stub(lambda interp, a_, k_: a_[0])
            if len(args) == 1 and not kwargs and isinstance(args[0], (Func, BoundBuiltin)) :
                return args[0]
            return stub(lambda interp, a_, k_: a_[0])
        if name in ("types.MappingProxyType", "MappingProxyType") and len(args) == 1 and isinstance(args[0], dict):
            return args[0]          # a read-only view: the same entries (writes through a view do not occur in analysed code)
        if name in ("ast.iter_child_nodes", "ast.walk", "ast.iter_fields", "ast.dump", "ast.unparse") and len(args) >= 1 and isinstance(args[0], ast.AST) and not kwargs:
            # structure of a concrete syntax tree: the host module is the reference
            r_ = getattr(ast, name.split(".", 1)[1])(*args)
            return r_ if isinstance(r_, str) else list(r_)
        if name in ("math.isfinite", "math.isnan", "math.isinf", "isfinite", "isnan", "isinf") and len(args) == 1 and (isinstance(args[0], Unknown) or type(args[0]).__name__ in ("Lin", "Iv")):
            # symbolic numbers stand for finite reals (tables that want NaN / inf pass the concrete value)
            return name.endswith("isfinite")
        if name.startswith("heapq.") and args and isinstance(args[0], list):
            # heap operations on a list of concrete keys: the host implementation is the reference (in place, like Python's)
            import heapq as _hq
            op_ = name.split(".", 1)[1]
            if op_ in ("heappush", "heappop", "heapify", "heappushpop", "heapreplace") and not any(_opaque(x) for x in list(args[0]) + list(args[1:])):
                try:
                    return getattr(_hq, op_)(*args)
                except IndexError as ex:
                    raise PyRaise(ExcVal("IndexError", (str(ex),)))
                except TypeError as ex:
                    raise PyRaise(ExcVal("TypeError", (str(ex),)))
            raise Imprecise(f"{name} on a heap with symbolic keys")
        if name.startswith("hashlib.") and name.split(".")[1] in ("md5", "sha1", "sha224", "sha256", "sha384", "sha512", "blake2b", "blake2s") \
                and (not args or isinstance(args[0], (bytes, str))) and all(k in ("usedforsecurity",) for k in kwargs):
            # a digest of literal data is constant folding: the host implementation is the reference
            import hashlib as _hl
            data = args[0] if args else b""
            hobj = getattr(_hl, name.split(".")[1])(data if isinstance(data, bytes) else data.encode())

            def _mk(meth):
                def f(interp, a, kw, _m=meth):
                    return getattr(hobj, _m)()
                f._opsa_stub = True
                return f
            return Obj(None, {"hexdigest": _mk("hexdigest"), "digest": _mk("digest")}, tag="digest")
        if name in ("operator.attrgetter", "attrgetter") and len(args) == 1 and isinstance(args[0], str):
            attr_ = args[0]

            def _getter(interp, a, kw, _attr=attr_):
                return interp.getattr(a[0], _attr)
            _getter._opsa_stub = True
            return _getter
        if name in ("operator.itemgetter", "itemgetter") and len(args) == 1:
            idx_ = args[0]

            def _igetter(interp, a, kw, _idx=idx_):
                return a[0][_idx]
            _igetter._opsa_stub = True
            return _igetter
        last = name.split(".")[-1]
        if any(isinstance(a, Unknown) for a in args) and last in ("len", "int", "float", "str", "abs", "min", "max", "sum", "round", "bool", "sorted", "list", "tuple", "set", "any", "all", "repr", "hash"):
            if last == "bool" and len(args) == 1 and not kwargs:
                return self.truth(args[0], "bool(…)")
            parts = [_sym(a) for a in args] + [f"{k}={_sym(v)}" for k, v in kwargs.items()]
            return Unknown(f"{last}({', '.join(parts)})")
        if name == "super":
            return self.fresh("super")
        if name == "print":
            return None
        if name == "isinstance":
            return self._isinstance(args[0], args[1])
        if name == "len":
            x = args[0]
            if isinstance(x, _DictView):
                return len(x.items())
            if isinstance(x, Obj) and x.cls is not None:
                m = self.p.find_method(x.cls, "__len__")
                if m:
                    return self.call_fi(m, [x], {})
            if _opaque(x):
                return self.fresh("len")
            return len(x)
        if name == "callable":
            a0 = args[0]
            if getattr(a0, "_opsa_stub", False) or (isinstance(a0, Obj) and a0.cls is not None and self.p.find_method(a0.cls, "__call__") is not None):
                return True             # a harness stub standing for a function; an instance of a class with __call__
            return isinstance(a0, (Func, ClassRef, BoundBuiltin)) or (isinstance(a0, ExtRef)) or (self.fresh("callable") if isinstance(a0, Unknown) else False)
        if name in ("getattr", "hasattr"):
            o, a = args[0], args[1]
            if isinstance(a, Unknown):
                return self.fresh("getattr")
            try:
                v = self.getattr(o, a)
                return True if name == "hasattr" else v
            except PyRaise:
                if name == "hasattr":
                    return False
                if len(args) > 2:
                    return args[2]
                raise
        if name == "setattr":
            o, a, v = args
            if isinstance(o, Obj) and isinstance(a, str):
                o.fields[a] = v
                return None
            raise Imprecise("setattr")
        if name in ("list", "tuple", "set", "frozenset", "sorted", "reversed"):
            items = self.iterate(args[0]) if args else []
            if name == "sorted":
                key = kwargs.get("key")
                rev = kwargs.get("reverse", False)
                try:
                    if key is not None:
                        ks = [self.call(key, [x], {}) for x in items]
                        if any(isinstance(k, Unknown) for k in ks):
                            return items
                        order = sorted(range(len(items)), key=lambda i: ks[i], reverse=bool(rev))
                        return [items[i] for i in order]
                    return sorted(items, reverse=bool(rev))
                except TypeError:
                    return items
            if name == "reversed":
                return list(reversed(items))
            return {"list": list, "tuple": tuple, "set": set, "frozenset": frozenset}[name](items)
        if name == "dict":
            d = {}
            if args:
                a0 = args[0]
                if isinstance(a0, dict):
                    d.update(a0)
                elif isinstance(a0, Unknown):
                    # a copy of an unknown mapping: an unknown mapping (the same symbol: its entries are the original's)
                    return a0 if not kwargs else Unknown(f"dict({a0.sym}, …)")
                else:
                    for kv in self.iterate(a0):
                        if isinstance(kv, Unknown):
                            return Unknown(f"dict({_sym(a0)})")
                        if not isinstance(kv, (list, tuple, str)):
                            raise PyRaise(ExcVal("TypeError", ("cannot convert dictionary update sequence element to a sequence",)))
                        if len(kv) != 2:
                            raise PyRaise(ExcVal("ValueError", (f"dictionary update sequence element has length {len(kv)}; 2 is required",)))
                        k, v = kv
                        d[k] = v
            d.update(kwargs)
            return d
        if name == "dict.fromkeys":
            if isinstance(args[0], Unknown):
                return Unknown(f"dict.fromkeys({args[0].sym})")
            val = args[1] if len(args) > 1 else None
            return {k: val for k in self.iterate(args[0])}
        if name == "range":
            if any(isinstance(a, Unknown) for a in args):
                return self.fresh("range")
            return range(*args)
        if name == "enumerate":
            start = kwargs.get("start", args[1] if len(args) > 1 else 0)
            return [(i + start, x) for i, x in enumerate(self.iterate(args[0]))]
        if name == "zip":
            return list(zip(*[self.iterate(a) for a in args]))
        if name in ("any", "all"):
            want = name == "any"
            for x in self.iter_lazy(args[0]):
                if self.truth(x) is want:
                    return want
            return not want
        if name == "iter" and len(args) == 1:
            if isinstance(args[0], (_Iter, _LazyGen)):
                return args[0]
            return _OneShot(list(self.iterate(args[0])))       # an iterator: what a loop has walked (before a break) is gone
        if name == "next" and args:
            src_ = args[0]
            if isinstance(src_, _LazyGen):
                return self._next(src_, list(args[1:2]))
            if isinstance(src_, (list, _Iter)) and not isinstance(src_, _Deque):
                if src_:
                    return src_.pop(0)
                if len(args) > 1:
                    return args[1]
                rv = getattr(src_, "retval", None)
                raise PyRaise(ExcVal("StopIteration", (rv,) if rv is not None else ()))
            if isinstance(src_, Unknown):
                return self.fresh(f"next({src_.sym})")
            raise PyRaise(ExcVal("TypeError", (f"{type(src_).__name__} object is not an iterator",)))
        if name == "map" and len(args) >= 2 and not kwargs and not any(isinstance(a, Unknown) for a in args[1:]) and not os.environ.get("OPSA_NO_MAP"):
            # map(f, *iterables): f applied element-wise (to the shortest), through the interpreter
            try:
                cols = [list(self.iterate(a)) for a in args[1:]]
                return _Iter([self.call(args[0], list(row), {}) for row in zip(*cols)])
            except (Imprecise, TypeError, AttributeError, KeyError, IndexError):
                return self.fresh("map")          # not modelled for these arguments: an arbitrary iterable, as before
        if name == "filter" and len(args) == 2 and not isinstance(args[1], Unknown):
            items_ = list(self.iterate(args[1]))
            return _Iter([x for x in items_ if (self.truth(x) if args[0] is None else self.truth(self.call(args[0], [x], {})))])
        if name in ("sum", "min", "max", "abs", "round", "int", "float", "str", "bool", "repr", "divmod", "pow", "hash", "id", "ord", "chr", "type", "iter", "next", "map", "filter"):
            if name in ("min", "max") and "key" in kwargs:
                items = self.iterate(args[0]) if len(args) == 1 else list(args)
                ks = [self.call(kwargs["key"], [x], {}) for x in items]
                if not items:
                    if "default" in kwargs:
                        return kwargs["default"]
                    raise PyRaise(ExcVal("ValueError", ("empty sequence",)))
                if any(isinstance(k, Unknown) or type(k).__name__ in ("Iv", "Lin") for k in ks):
                    # keys that are not concrete numbers (unknowns, intervals): which item wins is decided by the oracle
                    if len(items) == 1:
                        return items[0]
                    i = self.o.choose(len(items), f"{name}(key) over {len(items)} items")
                    return items[i]
                f = min if name == "min" else max
                try:
                    return items[f(range(len(items)), key=lambda i: ks[i])]
                except TypeError as ex:
                    raise PyRaise(ExcVal("TypeError", (str(ex),)))
            if name == "type":
                x = args[0]
                if isinstance(x, Obj) and x.cls:
                    return ClassRef(x.cls)
                if isinstance(x, EnumVal):
                    return ClassRef(x.cls)
                if isinstance(x, ExcVal):
                    return ExtRef(x.clsname)
                if isinstance(x, ast.AST):
                    return ExtRef(f"ast.{type(x).__name__}")
                if _opaque(x):
                    return Unknown(f"type({_sym(x)})")      # the same value has the same type every time it is asked
                return ExtRef(type(x).__name__)
            if name == "str":
                x = args[0] if args else ""
                if isinstance(x, EnumVal):
                    return f"{x.cls.name}.{x.name}"
                if isinstance(x, (Obj, ExcVal)):
                    if isinstance(x, ExcVal):
                        return str(x.args[0]) if x.args and isinstance(x.args[0], str) else self.fresh("str")
                    if x.cls is not None and self._is_exception(x.cls):
                        a = x.fields.get("args", ())
                        return a[0] if len(a) == 1 and isinstance(a[0], str) else self.fresh("str")
                    return self.fresh("str")
                if _opaque(x):
                    return self.fresh("str")
                return str(x)
            if name == "bool":
                return self.truth(args[0]) if args else False
            if name == "abs" and args and isinstance(args[0], Iv):
                x = args[0]
                if x.lo >= 0:
                    return x
                if x.hi <= 0:
                    return Iv(-x.hi, -x.lo)
                return Iv(0, max(-x.lo, x.hi))
            if name == "float" and args and isinstance(args[0], Iv):
                return args[0]
            if name in ("sum", "min", "max") and args and any(isinstance(x, Iv) for x in (self.iterate(args[0]) if len(args) == 1 and not isinstance(args[0], (int, float, Iv)) else list(args))):
                items = self.iterate(args[0]) if len(args) == 1 and not isinstance(args[0], (int, float, Iv)) else list(args)
                if name == "sum":
                    acc = args[1] if len(args) > 1 else 0
                    for x in items:
                        acc = self.binop(ast.Add(), acc, x)
                    return acc
                ivs = [Iv.of(x) for x in items]
                if name == "max":
                    return Iv(max(i.lo for i in ivs), max(i.hi for i in ivs))
                return Iv(min(i.lo for i in ivs), min(i.hi for i in ivs))
            if name in ("sum", "min", "max") and args:
                items = self.iterate(args[0]) if len(args) == 1 and not isinstance(args[0], (int, float)) else list(args)
                if name == "sum" and len(args) > 1:
                    items = self.iterate(args[0])
                if any(isinstance(x, Unknown) for x in items):
                    u_ = Unknown(f"{name}({', '.join(x.sym if isinstance(x, Unknown) else repr(x) for x in items)})")
                    conc = [x for x in items if not isinstance(x, Unknown) and not _opaque(x)]
                    if name in ("min", "max") and conc:
                        try:
                            if not hasattr(self, "_bounds"):
                                self._bounds = {}
                            self._bounds[u_.sym] = (max(conc), None) if name == "max" else (None, min(conc))
                        except TypeError:
                            pass
                    return u_
                if any(_opaque(x) for x in items):
                    return self.fresh(name)
                try:
                    if name == "sum":
                        return sum(items, args[1]) if len(args) > 1 else sum(items)
                    if not items and "default" in kwargs:
                        return kwargs["default"]
                    return (min if name == "min" else max)(items)
                except ValueError as ex:
                    raise PyRaise(ExcVal("ValueError", (str(ex),)))
                except TypeError as ex:
                    raise PyRaise(ExcVal("TypeError", (str(ex),)))
            if any(_opaque(a) for a in args):
                if name in ("chr", "ord", "abs", "round", "int", "float", "repr", "pow", "divmod") and not kwargs and all(isinstance(a, (Unknown, int, float, str, bool)) for a in args):
                    return Unknown(f"{name}({', '.join(_sym(a) for a in args)})")       # a pure function of its argument: the same question, the same symbol
                return self.fresh(name)
            try:
                return getattr(_b, name)(*args, **kwargs)
            except Exception as ex:
                raise PyRaise(ExcVal(type(ex).__name__, (str(ex),)))
        if name in ("operator.is_", "operator.is_not") and len(args) == 2:
            r_ = self.compare(ast.Is(), args[0], args[1])
            if isinstance(r_, Unknown):
                return Unknown(r_.sym, not r_.neg) if name.endswith("is_not") else r_
            return (not r_) if name.endswith("is_not") else r_
        if name.startswith("operator.") and not any(_opaque(a) for a in args) and hasattr(operator, last):
            try:
                return getattr(operator, last)(*args)
            except Exception as ex:
                raise PyRaise(ExcVal(type(ex).__name__, (str(ex),)))
        if name.startswith("math."):
            if any(_opaque(a) for a in args):
                parts = [_sym(a) for a in args] + [f"{k}={_sym(v)}" for k, v in kwargs.items()]
                return Unknown(f"{name}({', '.join(parts)})")
            try:
                return getattr(math, last)(*args)
            except Exception as ex:
                raise PyRaise(ExcVal(type(ex).__name__, (str(ex),)))
        if last in ("OrderedDict",) and not args:
            return {}
        if name in ("dataclasses.replace", "replace") and args and isinstance(args[0], Obj) and args[0].cls is not None:
            src_ = args[0]
            o2 = Obj(src_.cls, dict(src_.fields))
            for k, v in kwargs.items():
                if k not in o2.fields and k not in [f for f, _, _, _ in self._dc_fields(src_.cls)]:
                    raise PyRaise(ExcVal("TypeError", (f"unexpected field {k}",)))
                o2.fields[k] = v
            post = self.p.find_method(src_.cls, "__post_init__")
            if post:
                self.call_fi(post, [o2], {})
            return o2
        if name in ("dataclasses.asdict", "asdict") and args and isinstance(args[0], Obj):
            return {k: v for k, v in args[0].fields.items()}
        if name in ("contextlib.suppress", "suppress"):
            return _Suppress([a.name.split(".")[-1] if isinstance(a, ExtRef) else (a.ci.name if isinstance(a, ClassRef) else str(a)) for a in args])
        if name in ("contextlib.nullcontext", "nullcontext"):
            return Obj(None, {}, tag="nullcontext")
        if name in ("collections.deque", "deque"):
            items = list(self.iterate(args[0])) if args else []
            ml = kwargs.get("maxlen", args[1] if len(args) > 1 else None)
            d = _Deque(items, ml)
            return d
        if name == "object" and not args and not kwargs:
            return Obj(None, {}, tag="sentinel")      # a fresh object: only its identity matters
        if name in ("collections.Counter", "Counter"):
            c_ = _DefaultDict(_ZERO)
            if args:
                src_ = args[0]
                if isinstance(src_, dict):
                    for k_, v_ in src_.items():
                        c_[k_] = v_
                else:
                    for k_ in self.iterate(src_):
                        c_[k_] = c_.get(k_, 0) + 1
            for k_, v_ in kwargs.items():
                c_[k_] = v_
            return c_
        if name in ("collections.defaultdict", "defaultdict"):
            return _DefaultDict(args[0] if args else None)
        if name in ("functools.partial", "partial") and args:
            fn_, pre, prekw = args[0], list(args[1:]), dict(kwargs)

            def _partial(interp, a, kw, _f=fn_, _pre=pre, _kw=prekw):
                return interp.call(_f, _pre + list(a), {**_kw, **kw})
            _partial._opsa_stub = True
            return _partial
        if name in ("itertools.takewhile", "takewhile") and len(args) == 2:
            out = []
            for x in self.iterate(args[1]):
                if not self.truth(self.call(args[0], [x], {}), "takewhile"):
                    break
                out.append(x)
            return out
        if name in ("itertools.dropwhile", "dropwhile") and len(args) == 2:
            items, i = list(self.iterate(args[1])), 0
            while i < len(items) and self.truth(self.call(args[0], [items[i]], {}), "dropwhile"):
                i += 1
            return items[i:]
        if name in ("itertools.filterfalse", "filterfalse") and len(args) == 2:
            return [x for x in self.iterate(args[1]) if not self.truth(self.call(args[0], [x], {}) if args[0] is not None else x, "filterfalse")]
        if name in ("itertools.starmap", "starmap") and len(args) == 2:
            return [self.call(args[0], list(self.iterate(x)), {}) for x in self.iterate(args[1])]
        if name in ("itertools.accumulate", "accumulate") and args:
            items = list(self.iterate(args[0]))
            fn_ = args[1] if len(args) > 1 else kwargs.get("func")
            out = []
            for i, x in enumerate(items):
                out.append(x if i == 0 else (self.call(fn_, [out[-1], x], {}) if fn_ is not None else self.binop(ast.Add(), out[-1], x)))
            return out
        if name in ("itertools.zip_longest", "zip_longest"):
            cols = [list(self.iterate(a)) for a in args]
            n = max((len(c) for c in cols), default=0)
            fill = kwargs.get("fillvalue")
            return [tuple(c[i] if i < len(c) else fill for c in cols) for i in range(n)]
        if name in ("itertools.product", "product") and "repeat" not in kwargs:
            import itertools as _it
            return [tuple(t) for t in _it.product(*[list(self.iterate(a)) for a in args])]
        if name in ("itertools.repeat", "repeat") and len(args) == 2 and isinstance(args[1], int):
            return [args[0]] * args[1]
        if name in ("functools.reduce", "reduce") and len(args) >= 2:
            items = list(self.iterate(args[1]))
            if len(args) >= 3:
                acc = args[2]
            elif items:
                acc, items = items[0], items[1:]
            else:
                raise PyRaise(ExcVal("TypeError", ("reduce() of empty iterable with no initial value",)))
            for x in items:
                acc = self.call(args[0], [acc, x], {})
            return acc
        if name.startswith("operator.") and last in ("or_", "and_", "xor") and len(args) == 2 and all(isinstance(x, (set, frozenset)) for x in args):
            return {"or_": operator.or_, "and_": operator.and_, "xor": operator.xor}[last](set(args[0]), set(args[1]))
        if name in ("itertools.chain", "chain"):
            out = []
            for a in args:
                out.extend(self.iterate(a))
            return out
        if name in ("itertools.chain.from_iterable", "chain.from_iterable"):
            out = []
            for a in self.iterate(args[0]):
                out.extend(self.iterate(a))
            return out
        if name in ("itertools.islice", "islice") and 2 <= len(args) <= 4 and all(a is None or isinstance(a, int) for a in args[1:]):
            items = list(self.iterate(args[0]))
            if len(args) == 2:
                sl = slice(None, args[1])
            else:
                sl = slice(*args[1:])
            if any(a is not None and a < 0 for a in args[1:]):
                raise PyRaise(ExcVal("ValueError", ("Indices for islice() must be None or an integer: 0 <= x <= sys.maxsize.",)))
            return items[sl]
        if last in ("Lock", "RLock", "Event", "Thread", "Condition", "Semaphore"):
            return Obj(None, {}, tag=last)
        if name in ("time.time", "time.monotonic", "time.perf_counter") or last in ("now", "utcnow", "today"):
            return self.fresh("clock")
        if isinstance(getattr(_b, last, None), type) and issubclass(getattr(_b, last), BaseException) and name == last:
            return ExcVal(last, tuple(args))
        if last == "field":
            return self.fresh("field")
        # anything else outside the package: opaque, pure, deterministic in its arguments.  A call that was handed a
        # mutable container may in fact change it (heapq, bisect.insort, random.shuffle …): remembered, so that a loop
        # which then does not stop is reported as a modelling gap, not as the program's behaviour
        if any(isinstance(a, (list, dict, set)) for a in list(args) + list(kwargs.values())) and name.split(".")[0] not in _PURE_MODULES and "." in name:
            self.opaque_mutators.append(name)
        self.event("extcall", name, tuple(a for a in args if not isinstance(a, (list, dict))))
        parts = [_sym(a) for a in args] + [f"{k}={_sym(v)}" for k, v in kwargs.items()]
        return Unknown(f"{name}({', '.join(parts)})")

    def _isinstance(self, v, cls):
        if isinstance(cls, tuple):
            rs = [self._isinstance(v, c) for c in cls]
            if any(r is True for r in rs):
                return True
            if all(r is False for r in rs):
                return False
            return self.fresh("isinstance")
        if isinstance(v, Unknown) and v.kind is not None and isinstance(cls, (ExtRef, ClassRef)):
            n_ = (cls.name.split(".")[-1] if isinstance(cls, ExtRef) else cls.ci.name)
            table = {"int": {"int", "Integral", "Rational", "Real", "Complex", "Number", "object"}, "real": {"float", "Real", "Complex", "Number", "object"},
                     "str": {"str", "object", "Sequence"}, "bool": {"bool", "int", "Integral", "Rational", "Real", "Complex", "Number", "object"}}
            return n_ in table.get(v.kind, set())
        if isinstance(v, Unknown):
            cn = cls.ci.name if isinstance(cls, ClassRef) else getattr(cls, "name", "?")
            return Unknown(f"isinstance({v.sym}, {cn})")
        if isinstance(cls, ClassRef):
            if isinstance(v, Obj) and v.cls is not None:
                return cls.ci.name in self._cls_anc(v.cls)
            if isinstance(v, EnumVal):
                return cls.ci.name in self._cls_anc(v.cls)
            return False
        if isinstance(cls, ExtRef) and isinstance(v, ast.AST):
            t = getattr(ast, cls.name.split(".")[-1], None) if cls.name.startswith("ast.") else None
            return isinstance(v, t) if isinstance(t, type) else False
        if isinstance(cls, ExtRef) and cls.name.startswith("ast."):
            return False
        if isinstance(cls, ExtRef):
            n = cls.name.split(".")[-1]
            t = getattr(_b, n, None)
            if isinstance(v, (Obj, EnumVal)):
                if isinstance(v, Obj) and v.cls is not None and n in self.exc_ancestors(v):
                    return True
                if isinstance(v, EnumVal) and n in ("Enum",):
                    return True
                if isinstance(v, EnumVal) and n in ("int", "str") and isinstance(v.value, t) and (n in v.cls.bases or ("IntEnum" in v.cls.bases and n == "int")):
                    return True
                return False
            if isinstance(v, ExcVal):
                return n in self._builtin_anc(v.clsname)
            if isinstance(v, (Func, BoundBuiltin, ClassRef)):
                return False
            if isinstance(t, type):
                if type(v).__name__ in ("Lin", "Iv") and n in ("int", "float", "complex"):
                    return n == "float" or self.fresh("isinstance")       # a symbolic number: a real; int-ness unknown
                return isinstance(v, t)
            if n in ("Number", "Complex", "Real", "Rational", "Integral") and (cls.name.startswith("numbers.") or cls.name == n):
                # the numeric tower (numbers.Real …): bool and int are Integral, float is Real, symbolic numbers are reals
                if type(v).__name__ in ("Lin", "Iv"):
                    return True if n in ("Number", "Complex", "Real") else self.fresh("isinstance")
                if n in ("Integral", "Rational"):
                    return isinstance(v, int)
                if n == "Real":
                    return isinstance(v, (int, float))
                return isinstance(v, (int, float, complex))
            if n in ("Mapping", "MutableMapping"):
                return isinstance(v, dict)
            if n in ("Collection", "Iterable", "Sized", "Container", "Reversible") and not isinstance(v, (int, float, bool, type(None))):
                return isinstance(v, (list, tuple, set, frozenset, dict, str, bytes, range)) or self.fresh("isinstance")
            if n in ("Set", "AbstractSet", "MutableSet") and (cls.name.startswith(("collections.abc", "typing", "abc")) or cls.name in ("Set", "AbstractSet", "MutableSet")):
                return isinstance(v, (set, frozenset))
            if n == "Hashable":
                return not isinstance(v, (list, dict, set))
            if n in ("Sequence",):
                return isinstance(v, (list, tuple, str))
            if n in ("Callable",):
                return isinstance(v, (Func, ClassRef, BoundBuiltin))
            return self.fresh("isinstance")
        raise Imprecise(f"isinstance against {cls!r}")

    def _cls_anc(self, ci):
        out = set()
        todo = [ci]
        while todo:
            c = todo.pop()
            if c.name in out:
                continue
            out.add(c.name)
            for b in c.bases:
                out.add(b)
                todo.extend(self.p.classes.get(b, []))
        return out

    def _set_has_equal(self, st, x):
        """does the set hold an element equal to x under the class's own __eq__ (records with a hand-written identity)?"""
        if isinstance(x, Obj) and x.cls is not None:
            eqm = self.p.find_method(x.cls, "__eq__")
            if eqm is not None:
                for y in list(st):
                    if y is x:
                        return True
                    if isinstance(y, Obj) and y.cls is x.cls and self.truth(self.call_fi(eqm, [y, x], {}), "__eq__") is True:
                        return True
                return False
        try:
            return x in st
        except TypeError:
            return False

    def _method(self, recv, name, args, kwargs):
        """method of a native value"""
        if name == "__getitem__" and len(args) == 1 and not kwargs and isinstance(recv, (dict, list, tuple, str)):
            return self._getitem(recv, args[0])          # `key=position.__getitem__`
        if name == "__contains__" and len(args) == 1 and not kwargs and isinstance(recv, (dict, list, tuple, str, set, frozenset)):
            return self._contains(recv, args[0])
        if name == "__len__" and not args and isinstance(recv, (dict, list, tuple, str, set, frozenset)):
            return len(recv)
        if isinstance(recv, Obj) and recv.cls is not None and name in ("_replace", "_asdict"):
            if name == "_asdict":
                return dict(recv.fields)
            o2 = Obj(recv.cls, dict(recv.fields))
            o2.fields.update(kwargs)
            return o2
        if isinstance(recv, Obj) and recv.cls is None:
            # synchronisation primitives: sequential interpretation, so acquiring always succeeds at once
            self.event("sync", recv.tag, name)
            if name in ("acquire", "__enter__", "wait"):
                return True
            if name in ("locked", "is_set"):
                return self.fresh(f"{recv.tag}.{name}")
            return None
        if isinstance(recv, dict):
            if name == "get":
                k = args[0]
                d = args[1] if len(args) > 1 else kwargs.get("default")
                if isinstance(k, Unknown):
                    if k in recv:
                        return recv[k]
                    if not recv:
                        return d
                    return self.fresh("dict.get")
                try:
                    return recv.get(k, d)
                except TypeError:
                    return d
            if name in ("keys", "values", "items"):
                return _DictView(recv, name)
            if name == "setdefault":
                return recv.setdefault(args[0], args[1] if len(args) > 1 else None)
            if name == "pop":
                if isinstance(args[0], Unknown):
                    raise Imprecise("dict.pop with unknown key")
                if args[0] in recv:
                    return recv.pop(args[0])
                if len(args) > 1:
                    return args[1]
                raise PyRaise(ExcVal("KeyError", (args[0],)))
            if name == "update":
                for a in args:
                    if isinstance(a, dict):
                        recv.update(a)
                    elif isinstance(a, Unknown):
                        self.event("extwrite", "dict", "update")
                    elif isinstance(a, (bool, int, float)) or a is None:
                        raise PyRaise(ExcVal("TypeError", (f"'{type(a).__name__}' object is not iterable",)))
                    else:
                        for i_, pair in enumerate(self.iterate(a)):
                            if isinstance(pair, Unknown):
                                self.event("extwrite", "dict", "update")
                                continue
                            if not isinstance(pair, (tuple, list)) or len(pair) != 2:
                                raise PyRaise(ExcVal("ValueError", (f"dictionary update sequence element #{i_} has length {len(pair) if hasattr(pair, '__len__') else '?'}; 2 is required",)))
                            recv[pair[0]] = pair[1]
                recv.update(kwargs)
                return None
            if name == "clear":
                recv.clear()
                return None
            if name == "copy":
                return dict(recv)
            if name == "move_to_end":
                k = args[0]
                if k in recv:
                    v = recv.pop(k)
                    if kwargs.get("last", args[1] if len(args) > 1 else True):
                        recv[k] = v
                    else:
                        items = [(k, v)] + list(recv.items())
                        recv.clear()
                        recv.update(items)
                    return None
                raise PyRaise(ExcVal("KeyError", (k,)))
            if name == "popitem":
                if not recv:
                    raise PyRaise(ExcVal("KeyError", ("popitem(): dictionary is empty",)))
                last_ = kwargs.get("last", args[0] if args else True)
                k = list(recv.keys())[-1 if last_ else 0]
                return (k, recv.pop(k))
        if isinstance(recv, _DefaultDict) and recv.factory is _ZERO:
            if name == "most_common":
                items = sorted(recv.items(), key=lambda kv: -kv[1])
                return items[:args[0]] if args and args[0] is not None else items
            if name == "elements":
                return [k for k, v in recv.items() for _ in range(v)]
            if name in ("update", "subtract") and args:
                sign = 1 if name == "update" else -1
                src_ = args[0]
                for k_ in (src_.keys() if isinstance(src_, dict) else self.iterate(src_)):
                    recv[k_] = recv.get(k_, 0) + sign * (src_[k_] if isinstance(src_, dict) else 1)
                return None
            if name == "total":
                return sum(recv.values())
        if isinstance(recv, _Deque):
            ml = recv.maxlen
            if name == "append":
                recv.append(args[0])
                if ml is not None and len(recv) > ml:
                    del recv[0]
                return None
            if name == "appendleft":
                recv.insert(0, args[0])
                if ml is not None and len(recv) > ml:
                    del recv[-1]
                return None
            if name == "extend":
                for x in self.iterate(args[0]):
                    recv.append(x)
                    if ml is not None and len(recv) > ml:
                        del recv[0]
                return None
            if name == "popleft":
                if not recv:
                    raise PyRaise(ExcVal("IndexError", ("pop from an empty deque",)))
                return recv.pop(0)
            if name == "rotate":
                n_ = args[0] if args else 1
                if recv and isinstance(n_, int):
                    n_ %= len(recv)
                    recv[:] = recv[-n_:] + recv[:-n_] if n_ else recv[:]
                return None
            if name == "copy":
                return _Deque(list(recv), ml)
        if isinstance(recv, list):
            if name == "append":
                recv.append(args[0])
                return None
            if name == "extend":
                recv.extend(self.iterate(args[0]))
                return None
            if name == "insert":
                recv.insert(args[0], args[1])
                return None
            if name == "pop":
                try:
                    return recv.pop(*args)
                except IndexError:
                    raise PyRaise(ExcVal("IndexError"))
            if name == "remove":
                for i, x in enumerate(recv):
                    if self._eq(x, args[0]):
                        del recv[i]
                        return None
                raise PyRaise(ExcVal("ValueError"))
            if name == "clear":
                recv.clear()
                return None
            if name == "copy":
                return list(recv)
            if name == "index":
                for i, x in enumerate(recv):
                    if self._eq(x, args[0]):
                        return i
                raise PyRaise(ExcVal("ValueError"))
            if name == "count":
                return sum(1 for x in recv if self._eq(x, args[0]))
            if name == "reverse":
                recv.reverse()
                return None
            if name == "sort":
                key = kwargs.get("key")
                rev = bool(kwargs.get("reverse", False))
                try:
                    if key is not None:
                        ks = [self.call(key, [x], {}) for x in recv]
                        if any(_opaque(k) for k in ks):
                            return None
                        order = sorted(range(len(recv)), key=lambda i: ks[i], reverse=rev)
                        recv[:] = [recv[i] for i in order]
                    else:
                        recv.sort(reverse=rev)
                except TypeError:
                    pass
                return None
        if isinstance(recv, set):
            if name == "add":
                if not self._set_has_equal(recv, args[0]):
                    recv.add(args[0])
                return None
            if name == "discard":
                recv.discard(args[0])
                return None
            if name == "remove":
                if args[0] in recv:
                    recv.remove(args[0])
                    return None
                raise PyRaise(ExcVal("KeyError"))
            if name == "clear":
                recv.clear()
                return None
        if isinstance(recv, set) and name in ("update", "difference_update", "intersection_update") and not any(isinstance(x, Unknown) for x in args):
            for x in args:
                items_ = self.iterate(x) if not isinstance(x, (set, frozenset)) else x
                if name == "update":
                    for y in items_:
                        if not self._set_has_equal(recv, y):
                            recv.add(y)          # like Python: an element equal to one already present is not added
                else:
                    getattr(recv, name)(items_)
            return None
        if isinstance(recv, (set, frozenset)):
            if name in ("issubset", "issuperset", "union", "intersection", "difference", "copy", "isdisjoint"):
                a = [set(self.iterate(x)) if not isinstance(x, (set, frozenset)) else x for x in args]
                if any(isinstance(x, Unknown) for x in args):
                    return self.fresh(name)
                return getattr(recv, name)(*a)
        if isinstance(recv, str):
            if any(isinstance(a, Unknown) for a in args):
                return Unknown(f"{recv!r}.{name}({', '.join(_sym(a) for a in args)})")
            try:
                if name == "join":
                    items = self.iterate(args[0])
                    if any(not isinstance(x, str) for x in items):
                        # the text of the parts stays visible in the symbol (a pure function of them)
                        return Unknown(f"{recv!r}.join⟨{' ‖ '.join(x if isinstance(x, str) else _sym(x) for x in items)}⟩")
                    return recv.join(items)
                if name == "format":
                    return Unknown(f"{recv!r}.format({', '.join(_sym(a) for a in list(args) + list(kwargs.values()))})")
                return getattr(recv, name)(*args, **kwargs)
            except Exception as ex:
                raise PyRaise(ExcVal(type(ex).__name__, (str(ex),)))
        if isinstance(recv, tuple):
            if name in ("index", "count"):
                return getattr(recv, name)(*args)
        if isinstance(recv, (int, float)):
            try:
                return getattr(recv, name)(*args)
            except Exception as ex:
                raise PyRaise(ExcVal(type(ex).__name__, (str(ex),)))
        if isinstance(recv, _DictView):
            raise Imprecise(f"method {name} on dict view")
        raise Imprecise(f"method {name} on {type(recv).__name__}")


class _Iter(list):
    """an iterator over already-computed items (iter(x), a drained generator): consumed from the front"""
    retval = None


class _OneShot(_Iter):
    """an iterator a harness passes where the code expects any iterable (a generator, map(...), iter(...)): consumed by
    the first walk over it"""


class _GenClose(BaseException):
    """raised inside a suspended generator body when the generator is closed"""


class _GenState:
    """the producer side of a lazily advanced generator.  The body runs in a helper thread that is handed control by
    advance() and hands it back at every yield: exactly one of consumer and producer runs at any time, so the
    interpreter state is used sequentially and the interleaving of their effects is Python's"""

    def __init__(self, run):
        self.run = run
        self.to_gen = threading.Semaphore(0)
        self.to_con = threading.Semaphore(0)
        self.msg = None
        self.thread = None
        self.done = False
        self.closing = False

    def body(self):
        self.to_gen.acquire()
        try:
            if self.closing:
                raise _GenClose()
            self.msg = ("done", self.run(self.emit))
        except _GenClose:
            self.msg = ("closed", None)
        except BaseException as ex:      # noqa: BLE001 - everything is handed to the consumer
            self.msg = ("raise", ex)
        self.run = None
        self.to_con.release()

    def emit(self, v):
        self.msg = ("yield", v)
        self.to_con.release()
        self.to_gen.acquire()
        if self.closing:
            raise _GenClose()
        return None

    def step(self, closing=False):
        if self.thread is None:
            if closing:
                self.done = True
                return ("closed", None)
            self.thread = threading.Thread(target=self.body, daemon=True)
            self.thread.start()
        self.closing = closing
        self.to_gen.release()
        if closing:
            # never wait for ever on a producer that cannot run any more (interpreter shutting down)
            if not self.to_con.acquire(timeout=2.0):
                self.done = True
                return ("closed", None)
        else:
            self.to_con.acquire()
        kind, v = self.msg
        if kind != "yield":
            self.done = True
            self.thread.join()
        return kind, v


class _LazyGen:
    """a called generator function or a generator expression (consumer side)"""

    def __init__(self, run, qual="<generator>"):
        self._st = _GenState(run)
        self.qual = qual
        self.retval = None

    def advance(self):
        st = self._st
        if st.done:
            return ("done", None)
        kind, v = st.step()
        if kind == "raise":
            raise v
        if kind == "done":
            self.retval = v
        return kind, v

    def close(self):
        st = self._st
        while not st.done:
            kind, v = st.step(closing=True)
            if kind == "raise":
                raise v
            # a body that yields again while being closed is ignored (Python raises RuntimeError)

    def __del__(self):
        import sys as _sys
        if _sys is None or _sys.is_finalizing():
            return                       # helper threads are daemons: nothing to unwind at interpreter exit
        try:
            self.close()
        except BaseException:            # noqa: BLE001
            pass


class _Deque(list):
    """collections.deque as a list with an optional maximum length (enforced by the method model)"""
    def __init__(self, items=(), maxlen=None):
        super().__init__(items)
        self.maxlen = maxlen
        if maxlen is not None and len(self) > maxlen:
            del self[:len(self) - maxlen]


def _zero(interp, args, kwargs):
    return 0


_zero._opsa_stub = True
_ZERO = _zero


class _DefaultDict(dict):
    def __init__(self, factory=None):
        super().__init__()
        self.factory = factory


class _DictView:
    def __init__(self, d, kind):
        self.d = d
        self.kind = kind

    def items(self):
        if self.kind == "keys":
            return list(self.d.keys())
        if self.kind == "values":
            return list(self.d.values())
        return [(k, v) for k, v in self.d.items()]


_MISSING = object()
# standard-library modules none of whose functions change a container they are given
_PURE_MODULES = {"json", "math", "cmath", "operator", "itertools", "functools", "statistics", "re", "copy", "hashlib", "hmac", "time", "datetime", "logging", "typing",
                 "dataclasses", "textwrap", "string", "decimal", "fractions", "uuid", "os", "pprint", "warnings", "base64", "binascii", "enum", "abc", "inspect", "sys", "ast", "collections"}
_NEVER_NONE = ("tuple(", "list(", "set(", "frozenset(", "sorted(", "dict(", "str(", "repr(", "len(", "int(", "float(", "abs(", "hash(", "f⟨", "type(", "bool(")
_LAZY_AWARE = {"next", "iter", "any", "all"}


def _sym(a):
    if isinstance(a, Iv):
        return a.name
    if isinstance(a, Unknown):
        return ("¬" if a.neg else "") + a.sym
    r = repr(a)
    return r if (len(r) <= 40 or "⟦" in r) else r[:37] + "…"      # marked symbols (taint analyses) are never cut


def _opaque(v):
    return isinstance(v, (Unknown, Obj, EnumVal, Func, ClassRef, ExtRef, ExcVal, BoundBuiltin, Iv)) or type(v).__name__ == "Lin"


def _boolish(x):
    return isinstance(x, (ast.Compare, ast.BoolOp)) or (isinstance(x, ast.UnaryOp) and isinstance(x.op, ast.Not))


def _as_load(t):
    import copy
    n = copy.copy(t)
    n.ctx = ast.Load()
    return n


def stub(fn):
    fn._opsa_stub = True
    return fn


def freeze(v, _depth=0):
    """hashable structural snapshot of an abstract value (for before/after comparison)"""
    if _depth > 6:
        return "…"
    if isinstance(v, Obj):
        return (v.cls.name if v.cls else "obj",) + tuple(sorted((k, freeze(x, _depth + 1)) for k, x in v.fields.items()))
    if isinstance(v, dict):
        return ("dict",) + tuple(sorted(((repr(k), freeze(x, _depth + 1)) for k, x in v.items()), key=repr))
    if isinstance(v, (list, tuple)):
        return (type(v).__name__,) + tuple(freeze(x, _depth + 1) for x in v)
    if isinstance(v, (set, frozenset)):
        return ("set",) + tuple(sorted((freeze(x, _depth + 1) for x in v), key=repr))
    if isinstance(v, (Unknown, EnumVal)):
        return repr(v)
    if isinstance(v, (Func, ClassRef, ExtRef, ExcVal, BoundBuiltin)):
        return repr(v) if not isinstance(v, Func) else f"func@{getattr(v.node, 'lineno', 0)}"
    return v


def cmp_outcome(decision, a_needle, b_needle):
    """For a recorded decision on a comparison between something mentioning
    a_needle and something mentioning b_needle, return the relation that held
    between a and b on this path: 'lt' | 'ge' | 'gt' | 'le' — or None when the
    decision is not such a comparison.  (fdai canonicalises `>=` as ¬`<` and
    `<=` as ¬`>`; the relation is recovered from the canonical symbol and the
    truth of its positive form, so it does not depend on how the source spells
    the test.)"""
    sym, pos = decision[2], decision[3]
    if not (sym.startswith("(") and sym.endswith(")")):
        return None
    body = sym[1:-1]
    for op in (" < ", " > "):
        # split at the top-level operator (last occurrence outside parentheses)
        depth = 0
        idx = -1
        for i, ch in enumerate(body):
            if ch == "(":
                depth += 1
            elif ch == ")":
                depth -= 1
            elif depth == 0 and body.startswith(op, i):
                idx = i
        if idx < 0:
            continue
        x, y = body[:idx], body[idx + len(op):]

        def _zero(t):
            return t.strip() in ("0", "0.0", "timedelta(0)", "datetime.timedelta(0)", "timedelta()", "datetime.timedelta()", "timedelta(seconds=0)")

        def _split_sub(t):
            t = t.strip()
            if not (t.startswith("(") and t.endswith(")")):
                return None
            inner, d_, cut = t[1:-1], 0, -1
            for i_, ch_ in enumerate(inner):
                if ch_ == "(":
                    d_ += 1
                elif ch_ == ")":
                    d_ -= 1
                elif d_ == 0 and inner.startswith(" Sub ", i_):
                    cut = i_
            return (inner[:cut], inner[cut + 5:]) if cut >= 0 else None
        # `limit - elapsed  REL  0` is `limit REL elapsed` (a remaining-time helper compared with zero)
        if _zero(y) and _split_sub(x):
            x, y = _split_sub(x)
        elif _zero(x) and _split_sub(y):
            y, x = _split_sub(y)
        if a_needle in x and b_needle in y and not (a_needle in y and b_needle in x):
            rel = "lt" if op == " < " else "gt"
        elif a_needle in y and b_needle in x:
            rel = "gt" if op == " < " else "lt"      # b < a  ==  a > b
        else:
            return None
        if pos:
            return rel
        return {"lt": "ge", "gt": "le"}[rel]
    return None


# ======================================================================
# Affine integer values (for the energy ledger): linear forms over entry
# symbols, path facts `form >= 0`, bounded entailment (no solver: a goal is
# accepted when it is a non-negative combination of at most three recorded
# facts plus a non-negative constant).

class Lin:
    __slots__ = ("co", "c")

    def __init__(self, co=None, c=0):
        self.co = {k: v for k, v in (co or {}).items() if v != 0}
        self.c = c

    @staticmethod
    def sym(name):
        return Lin({name: 1}, 0)

    @staticmethod
    def of(x):
        if isinstance(x, Lin):
            return x
        if isinstance(x, bool):
            return Lin({}, int(x))
        if isinstance(x, int):
            return Lin({}, x)
        if isinstance(x, float) and x == x and x not in (float("inf"), float("-inf")):
            from fractions import Fraction
            return Lin({}, Fraction(str(x)))
        if type(x).__name__ == "Fraction":
            return Lin({}, x)
        return None

    def is_const(self):
        return not self.co

    def add(self, o, sign=1):
        co = dict(self.co)
        for k, v in o.co.items():
            co[k] = co.get(k, 0) + sign * v
        return Lin(co, self.c + sign * o.c)

    def scale(self, k):
        return Lin({s: v * k for s, v in self.co.items()}, self.c * k)

    def key(self):
        return (tuple(sorted(self.co.items())), self.c)

    def __repr__(self):
        parts = []
        for k, v in sorted(self.co.items()):
            parts.append(("" if v == 1 else "-" if v == -1 else f"{float(v):g}*" if type(v).__name__ == "Fraction" else f"{v}*") + k)
        if self.c or not parts:
            parts.append(f"{float(self.c):g}" if type(self.c).__name__ == "Fraction" else str(self.c))
        return " + ".join(parts).replace("+ -", "- ")

    def __eq__(self, o):
        return isinstance(o, Lin) and self.key() == o.key()

    def __hash__(self):
        return hash(self.key())


_ENT_CACHE = {}


def entails(facts, goal, depth=3):
    """facts: list[Lin] each meaning f >= 0.  Is goal >= 0 implied?  Depth-bounded search for a derivation
    goal = sum(k_i * f_i) + c  with k_i in {1, 2}, at most `depth` facts and c >= 0: at each step only a fact that cancels
    (part of) a symbol of the residual with the right sign is tried."""
    if goal.is_const():
        return goal.c >= 0
    fk = tuple(sorted({f.key() for f in facts}))
    ck = (fk, goal.key(), depth)
    if ck in _ENT_CACHE:
        return _ENT_CACHE[ck]
    uniq = {}
    for f in facts:
        uniq.setdefault(f.key(), f)
    fl = list(uniq.values())

    def rec(res, d, start):
        if res.is_const():
            return res.c >= 0
        if d == 0:
            return False
        syms = res.co
        from fractions import Fraction
        for i in range(start, len(fl)):
            f = fl[i]
            mults = []
            for k, v in f.co.items():
                rv = syms.get(k)
                if rv is not None and (rv > 0) == (v > 0):
                    m = Fraction(rv) / Fraction(v)      # cancels symbol k exactly
                    if m > 0 and m not in mults:
                        mults.append(m)
            for m in mults:
                if rec(res.add(f.scale(m), -1), d - 1, 0):
                    return True
        return False
    r = rec(goal, depth, 0)
    if len(_ENT_CACHE) > 200000:
        _ENT_CACHE.clear()
    _ENT_CACHE[ck] = r
    return r


class LinInterp(Interp):
    """Interp extended with Lin values and path facts"""

    def __init__(self, *a, real=False, **kw):
        super().__init__(*a, **kw)
        self.facts = []          # Lin >= 0
        self.div_checks = []     # (text, divisor Lin, provably nonzero?)
        self.real = real         # real-valued quantities: strict branches are recorded as (relaxed) non-strict facts

    def assume(self, lin):
        self.facts.append(lin)

    def _decide(self, d, label):
        """d: Lin.  Decide the sign class of d among  d >= 1 / d == 0 / d <= -1  (consistent with facts); returns 1, 0, -1"""
        if d.is_const():
            return (d.c > 0) - (d.c < 0)
        opts = []
        if self.real:
            pos, neg = d, d.scale(-1)
            can_pos = not entails(self.facts, d.scale(-1))
            can_neg = not entails(self.facts, d)
            can_zero = True
            if can_pos:
                opts.append((1, [pos]))
            opts.append((0, [d, d.scale(-1)]))
            if can_neg:
                opts.append((-1, [neg]))
            if len(opts) == 1:
                sgn, fs = opts[0]
            else:
                i = self.o.choose(len(opts), f"sign({d!r}) at {label}", key=("lin", d.key()))
                sgn, fs = opts[min(i, len(opts) - 1)]
                self.decisions.append((label, sgn, repr(d), sgn))
            for f in fs:
                if not entails(self.facts, f):
                    self.facts.append(f)
            return sgn
        pos = d.add(Lin({}, 1), -1)          # d - 1 >= 0
        neg = d.scale(-1).add(Lin({}, 1), -1)  # -d - 1 >= 0
        can_pos = not entails(self.facts, d.scale(-1))          # not (d <= 0)
        can_neg = not entails(self.facts, d)                    # not (d >= 0)
        can_zero = not entails(self.facts, pos) and not entails(self.facts, neg)
        if can_pos:
            opts.append((1, [pos]))
        if can_zero:
            opts.append((0, [d, d.scale(-1)]))
        if can_neg:
            opts.append((-1, [neg]))
        if not opts:
            raise Imprecise(f"contradictory facts at {label}")
        if len(opts) == 1:
            sgn, fs = opts[0]
        else:
            i = self.o.choose(len(opts), f"sign({d!r}) at {label}", key=("lin", d.key()))
            sgn, fs = opts[min(i, len(opts) - 1)]
            self.decisions.append((label, sgn, repr(d), sgn))
        for f in fs:
            if not entails(self.facts, f):
                self.facts.append(f)
        return sgn

    def binop(self, op, a, b):
        la, lb = Lin.of(a), Lin.of(b)
        if (isinstance(a, Lin) or isinstance(b, Lin)) and la is not None and lb is not None:
            if isinstance(op, ast.Add):
                return _lin_norm(la.add(lb))
            if isinstance(op, ast.Sub):
                return _lin_norm(la.add(lb, -1))
            if isinstance(op, ast.Mult):
                if la.is_const():
                    return _lin_norm(lb.scale(la.c))
                if lb.is_const():
                    return _lin_norm(la.scale(lb.c))
                return Unknown(f"({la!r} * {lb!r})")
            if isinstance(op, ast.Div) and lb.is_const() and lb.c != 0 and self.real:
                from fractions import Fraction
                return _lin_norm(la.scale(Fraction(1) / Fraction(lb.c)))
            if isinstance(op, ast.Div) and la.is_const() and la.c == 0 and self.real:
                return 0
            if isinstance(op, (ast.Div, ast.FloorDiv, ast.Mod)):
                sgn_known = entails(self.facts, lb.add(Lin({}, 1), -1)) or entails(self.facts, lb.scale(-1).add(Lin({}, 1), -1)) if not lb.is_const() else lb.c != 0
                self.div_checks.append((f"{la!r} / {lb!r}", lb, bool(sgn_known)))
                if not sgn_known:
                    zero_possible = not entails(self.facts, lb.add(Lin({}, 1), -1)) and not entails(self.facts, lb.scale(-1).add(Lin({}, 1), -1))
                    if zero_possible and entails(self.facts, lb) and entails(self.facts, lb.scale(-1)):
                        raise PyRaise(ExcVal("ZeroDivisionError", (f"{la!r} / {lb!r} with divisor == 0 on this path",)))
                    if zero_possible:
                        s = self._decide(lb, f"divisor {lb!r}")
                        if s == 0:
                            raise PyRaise(ExcVal("ZeroDivisionError", (f"{la!r} / {lb!r}",)))
                return Unknown(f"({la!r} {type(op).__name__} {lb!r})")
        if isinstance(a, Lin) or isinstance(b, Lin):
            return Unknown(f"({_sym(a) if not isinstance(a, Lin) else repr(a)} {type(op).__name__} {_sym(b) if not isinstance(b, Lin) else repr(b)})")
        return super().binop(op, a, b)

    def _bool_decide(self, d, truth_of_sign, label):
        """real mode: decide a predicate of sign(d) with one two-way choice at most.
        truth_of_sign: {1: bool, 0: bool, -1: bool}"""
        feas = {1: not entails(self.facts, d.scale(-1)), 0: True, -1: not entails(self.facts, d)}
        if d.is_const():
            return truth_of_sign[(d.c > 0) - (d.c < 0)]
        # zero is only feasible together with both relaxed sides; if one side is refuted and the other entailed strictly we still keep it
        outcomes = {truth_of_sign[sg] for sg in (1, 0, -1) if feas[sg]}
        if len(outcomes) == 1:
            return outcomes.pop()
        i = self.o.choose(2, f"{label}: {d!r}", key=("linb", d.key(), tuple(sorted(truth_of_sign.items()))))
        val = (i == 0)
        signs = [sg for sg in (1, 0, -1) if feas[sg] and truth_of_sign[sg] is val]
        # facts implied by every sign in the chosen group
        if all(sg >= 0 for sg in signs) and not entails(self.facts, d):
            self.facts.append(d)
        if all(sg <= 0 for sg in signs) and not entails(self.facts, d.scale(-1)):
            self.facts.append(d.scale(-1))
        self.decisions.append((label, val, repr(d), val))
        return val

    def compare(self, op, a, b, label=""):
        la, lb = Lin.of(a), Lin.of(b)
        if (isinstance(a, Lin) or isinstance(b, Lin)) and la is not None and lb is not None and isinstance(op, (ast.Lt, ast.LtE, ast.Gt, ast.GtE, ast.Eq, ast.NotEq)):
            d = la.add(lb, -1)
            table = {ast.Lt: {1: False, 0: False, -1: True}, ast.LtE: {1: False, 0: True, -1: True}, ast.Gt: {1: True, 0: False, -1: False},
                     ast.GtE: {1: True, 0: True, -1: False}, ast.Eq: {1: False, 0: True, -1: False}, ast.NotEq: {1: True, 0: False, -1: True}}[type(op)]
            if self.real:
                return self._bool_decide(d, table, label or "compare")
            s = self._decide(d, label or "compare")
            return table[s]
        if isinstance(a, Lin) or isinstance(b, Lin):
            if isinstance(op, (ast.Is, ast.IsNot)):
                return isinstance(op, ast.IsNot)
            other = b if isinstance(a, Lin) else a
            if isinstance(other, float) and (other != other or other in (float("inf"), float("-inf"))):
                # a symbolic quantity is a finite number: it equals neither infinity nor NaN and lies strictly between the infinities
                if other != other:
                    return isinstance(op, ast.NotEq)
                big = other > 0
                lin_left = isinstance(a, Lin)
                less = big if lin_left else not big           # is (left < right)?
                return {ast.Eq: False, ast.NotEq: True, ast.Lt: less, ast.LtE: less, ast.Gt: not less, ast.GtE: not less}.get(type(op), Unknown(f"({a!r} {type(op).__name__} {b!r})"))
            return Unknown(f"({a!r} {type(op).__name__} {b!r})")
        return super().compare(op, a, b, label)

    def truth(self, v, label=""):
        if isinstance(v, Lin):
            return self._decide(v, label or "truth") != 0
        return super().truth(v, label)

    def _ext_call(self, name, args, kwargs):
        if name in ("min", "max") and len(args) == 1 and isinstance(args[0], (list, tuple)) and args[0] and any(isinstance(x, Lin) for x in args[0]) \
                and all(Lin.of(x) is not None for x in args[0]):
            args = list(args[0])
            if len(args) == 1 or all(Lin.of(x) == Lin.of(args[0]) for x in args):
                return args[0]
        if name in ("min", "max") and len(args) >= 2 and any(isinstance(x, Lin) for x in args) and all(Lin.of(x) is not None for x in args):
            best = Lin.of(args[0])
            for x in args[1:]:
                lx = Lin.of(x)
                if self.real:
                    # ties are irrelevant for min/max: one two-way choice (best >= x ?)
                    ge = self._bool_decide(best.add(lx, -1), {1: True, 0: True, -1: False}, f"{name}({best!r}, {lx!r})")
                    if (name == "min" and ge) or (name == "max" and not ge):
                        best = lx
                    continue
                s = self._decide(best.add(lx, -1), f"{name}({best!r}, {lx!r})")
                if (name == "min" and s > 0) or (name == "max" and s < 0):
                    best = lx
            return _lin_norm(best)
        if name == "int" and args and isinstance(args[0], Lin):
            return args[0]
        if name in ("abs",) and args and isinstance(args[0], Lin):
            s = self._decide(args[0], "abs")
            return args[0] if s >= 0 else _lin_norm(args[0].scale(-1))
        if any(isinstance(x, Lin) for x in args) and name in ("str", "repr", "float", "round", "print"):
            return None if name == "print" else Unknown(f"{name}({', '.join(repr(x) for x in args)})")
        return super()._ext_call(name, args, kwargs)


def _lin_norm(l):
    return l.c if l.is_const() else l
