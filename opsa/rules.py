"""Shared rule helpers on top of cfg/resolve."""
from __future__ import annotations

import ast

from .cfg import CFG, edge_facts
from .loader import AnchorError, FuncInfo, is_self_attr, short, src, walk_no_nested, dotted


def where(fi: FuncInfo, node) -> str:
    return f"{fi.module.rel}:{getattr(node, 'lineno', getattr(getattr(node, 'stmt', None), 'lineno', 0)) or (node.line if hasattr(node, 'line') else 0)}"


def cfg_of(fi: FuncInfo, led=None, cache={}, **kw) -> CFG:
    key = (id(fi.node), tuple(sorted(kw)))
    if key not in cache:
        cache[key] = CFG(fi.node, **kw)
        if led is not None:
            led.note_cfg(fi, cache[key])
    return cache[key]


def edge_guards(cfg: CFG, node):
    """[(test node, label)]: edges whose removal makes `node` unreachable from
    entry, i.e. every path to `node` takes that edge (edge dominators among
    test/for nodes)."""
    out = []
    base = cfg.reach(starts=[cfg.entry])
    if node not in base:
        return out
    for t in cfg.nodes:
        if t.kind not in ("test", "for") or t not in base:
            continue
        for lab in ("T", "F"):
            if not any(l == lab for _, l in t.succ):
                continue
            seen = cfg.reach(starts=[cfg.entry], cut=lambda a, b, l, _t=t, _lab=lab: a is _t and l == _lab)
            if node not in seen:
                out.append((t, lab))
    return out


def guard_facts(cfg: CFG, node):
    """all (atom expr, polarity, test node) that definitely hold whenever `node` executes"""
    out = []
    for t, lab in edge_guards(cfg, node):
        if t.kind != "test":
            continue
        for atom, pol in edge_facts(t.ast, lab):
            out.append((atom, pol, t))
    return out


def mentions(expr, pred) -> bool:
    return any(pred(x) for x in ast.walk(expr))


def mentions_attr(expr, attr, base=None) -> bool:
    for x in ast.walk(expr):
        if isinstance(x, ast.Attribute) and x.attr == attr:
            if base is None or (isinstance(x.value, ast.Name) and x.value.id == base):
                return True
    return False


def mentions_name(expr, name) -> bool:
    return any(isinstance(x, ast.Name) and x.id == name for x in ast.walk(expr))


def calls_named(fnnode, name):
    """Call nodes inside fnnode (not nested defs) whose simple callee name is `name`"""
    out = []
    for n in walk_no_nested(fnnode):
        if isinstance(n, ast.Call):
            f = n.func
            if (isinstance(f, ast.Attribute) and f.attr == name) or (isinstance(f, ast.Name) and f.id == name):
                out.append(n)
    return sorted(out, key=lambda c: (c.lineno, c.col_offset))


def in_cycle(cfg: CFG, node) -> bool:
    """node lies on a CFG cycle (can execute more than once per call)"""
    seen = cfg.reach(start_edges=cfg.out_edges(node))
    return node in seen


# ----------------------------------------------------------------------
# attribute / container write discovery

MUTATORS = {"append", "extend", "insert", "pop", "popitem", "remove", "clear", "update", "setdefault",
            "add", "discard", "sort", "reverse", "appendleft", "popleft", "__setitem__", "__delitem__",
            "difference_update", "intersection_update", "symmetric_difference_update"}


def attr_writes(fnnode, attr, base=None):
    """Statements/expressions in fnnode that (re)bind or mutate `<base>.attr`:
    returns list of (kind, node) with kind in assign / augassign / subscript-store /
    subscript-del / del / mutcall:<method> .  base None = any receiver."""
    out = []

    def is_target(x):
        return isinstance(x, ast.Attribute) and x.attr == attr and (
            base is None or (isinstance(x.value, ast.Name) and x.value.id == base) or
            (isinstance(base, str) and dotted(x.value) == base))

    def targets_of(t):
        if isinstance(t, (ast.Tuple, ast.List)):
            for e in t.elts:
                yield from targets_of(e)
        elif isinstance(t, ast.Starred):
            yield from targets_of(t.value)
        else:
            yield t

    for n in walk_no_nested(fnnode):
        if isinstance(n, ast.Assign):
            for t0 in n.targets:
                for t in targets_of(t0):
                    if is_target(t):
                        out.append(("assign", n))
                    elif isinstance(t, ast.Subscript) and is_target(t.value):
                        out.append(("subscript-store", n))
        elif isinstance(n, ast.AnnAssign):
            if is_target(n.target) and n.value is not None:
                out.append(("assign", n))
            elif isinstance(n.target, ast.Subscript) and is_target(n.target.value):
                out.append(("subscript-store", n))
        elif isinstance(n, ast.AugAssign):
            if is_target(n.target):
                out.append(("augassign", n))
            elif isinstance(n.target, ast.Subscript) and is_target(n.target.value):
                out.append(("subscript-store", n))
        elif isinstance(n, ast.Delete):
            for t in n.targets:
                if is_target(t):
                    out.append(("del", n))
                elif isinstance(t, ast.Subscript) and is_target(t.value):
                    out.append(("subscript-del", n))
        elif isinstance(n, ast.Call) and isinstance(n.func, ast.Attribute) and n.func.attr in MUTATORS and is_target(n.func.value):
            out.append((f"mutcall:{n.func.attr}", n))
        elif isinstance(n, ast.For):
            for t in targets_of(n.target):
                if is_target(t):
                    out.append(("assign", n))
        elif isinstance(n, ast.Call) and isinstance(n.func, ast.Name) and n.func.id == "setattr" and len(n.args) >= 2:
            a = n.args[1]
            if isinstance(a, ast.Constant) and a.value == attr:
                out.append(("setattr", n))
    return out


def package_attr_writes(project, attr, base=None):
    """[(FuncInfo, kind, node)] over every function of the package"""
    out = []
    for fi in project.all_funcs:
        for kind, n in attr_writes(fi.node, attr, base):
            out.append((fi, kind, n))
    return out


# ----------------------------------------------------------------------
# folding tests on one enum-valued variable

def fold_test(test, env):
    """Three-valued evaluation of a test expression given env: name -> set of
    possible dotted constants (e.g. {'LockResult.BLOCKED'}) or python constants.
    Returns True / False / None."""
    if isinstance(test, ast.UnaryOp) and isinstance(test.op, ast.Not):
        v = fold_test(test.operand, env)
        return None if v is None else (not v)
    if isinstance(test, ast.BoolOp):
        vals = [fold_test(v, env) for v in test.values]
        if isinstance(test.op, ast.And):
            if any(v is False for v in vals):
                return False
            if all(v is True for v in vals):
                return True
            return None
        if any(v is True for v in vals):
            return True
        if all(v is False for v in vals):
            return False
        return None
    if isinstance(test, ast.Compare) and len(test.ops) == 1:
        l, op, r = test.left, test.ops[0], test.comparators[0]
        lk, rk = _sym(l), _sym(r)
        if lk in env or rk in env:
            if rk in env and lk not in env:
                lk, rk, l, r = rk, lk, r, l
                if isinstance(op, (ast.In, ast.NotIn)):
                    return None
            vals = env[lk]
            if isinstance(op, (ast.Eq, ast.NotEq, ast.Is, ast.IsNot)):
                c = _const(r, env)
                if c is None:
                    return None
                res = None
                if all(v in c for v in vals) and len(c) == 1:
                    res = True
                elif not (set(vals) & set(c)):
                    res = False
                if res is None:
                    return None
                return res if isinstance(op, (ast.Eq, ast.Is)) else (not res)
            if isinstance(op, (ast.In, ast.NotIn)) and isinstance(r, (ast.Tuple, ast.List, ast.Set)):
                cs = []
                for e in r.elts:
                    c = _const(e, env)
                    if c is None or len(c) != 1:
                        return None
                    cs.append(next(iter(c)))
                res = None
                if all(v in cs for v in vals):
                    res = True
                elif not any(v in cs for v in vals):
                    res = False
                if res is None:
                    return None
                return res if isinstance(op, ast.In) else (not res)
        return None
    if isinstance(test, ast.Constant):
        return bool(test.value)
    k = _sym(test)
    if k in env:
        vals = env[k]
        truth = {_truthy(v) for v in vals}
        if truth == {True}:
            return True
        if truth == {False}:
            return False
    return None


def _truthy(v):
    if isinstance(v, str) and "." in v:
        return True   # enum members are truthy
    return bool(v) if not isinstance(v, str) else (v not in ("None", "False", ""))


def _sym(e):
    d = dotted(e)
    return d


def _const(e, env):
    if isinstance(e, ast.Constant):
        return {repr(e.value) if not isinstance(e.value, str) else e.value}
    d = dotted(e)
    if d is None:
        return None
    if d in env:
        return set(env[d])
    if "." in d:
        parts = d.split(".")
        return {".".join(parts[-2:])}
    if d in ("None", "True", "False"):
        return {d}
    return None


def walk_folded(cfg: CFG, start_edges, env, avoid=(), kill_on_assign=True):
    """reachability from start_edges following only test edges consistent with
    env (see fold_test).  An assignment to a variable of env on the way removes
    it from the environment for what follows (conservatively: both edges)."""
    from collections import deque
    seen = {}
    dq = deque()
    frozen = tuple(sorted((k, tuple(sorted(v))) for k, v in env.items()))
    for a, b, lab in start_edges:
        if b in avoid:
            continue
        seen[(b, frozen)] = (a, lab, None)
        dq.append((b, frozen))
    result = {}
    while dq:
        n, fr = dq.popleft()
        result.setdefault(n, (n, fr))
        e = {k: set(v) for k, v in fr}
        # assignments kill
        if n.kind == "stmt" and kill_on_assign and isinstance(n.ast, (ast.Assign, ast.AugAssign, ast.AnnAssign)):
            tg = n.ast.targets if isinstance(n.ast, ast.Assign) else [n.ast.target]
            for t in tg:
                for x in ast.walk(t):
                    d = dotted(x)
                    if d in e:
                        del e[d]
        if n.kind == "for":
            for x in ast.walk(n.stmt.target):
                d = dotted(x)
                if d in e:
                    del e[d]
        fr2 = tuple(sorted((k, tuple(sorted(v))) for k, v in e.items()))
        verdict = fold_test(n.ast, e) if n.kind == "test" else None
        for m, lab in n.succ:
            if m in avoid:
                continue
            if verdict is True and lab == "F":
                continue
            if verdict is False and lab == "T":
                continue
            key = (m, fr2)
            if key in seen:
                continue
            seen[key] = (n, lab, fr)
            dq.append(key)
    result["__seen__"] = seen
    return result


def folded_path(result, node):
    """witness path [(node, label)] for a node reached by walk_folded"""
    seen = result["__seen__"]
    key = result[node]
    path = []
    guard = 0
    while key is not None and guard < 5000:
        guard += 1
        prev, lab, pfr = seen[key]
        path.append((key[0], lab))
        if pfr is None:
            path.append((prev, None))
            break
        key = (prev, pfr)
    path.reverse()
    return path


def enum_return_sites(fi: FuncInfo, enum_name: str):
    """[(member, Return node)] for `return Enum.MEMBER` statements"""
    out = []
    for n in walk_no_nested(fi.node):
        if isinstance(n, ast.Return) and n.value is not None:
            d = dotted(n.value)
            if d and d.split(".")[-2:-1] == [enum_name]:
                out.append((d.split(".")[-1], n))
    return out


# ----------------------------------------------------------------------
# truth-table reasoning about what holds on an out-edge of a test

def bool_atoms(e, out=None):
    """leaf atoms of a boolean expression (through and/or/not)"""
    if out is None:
        out = []
    if isinstance(e, ast.BoolOp):
        for v in e.values:
            bool_atoms(v, out)
    elif isinstance(e, ast.UnaryOp) and isinstance(e.op, ast.Not):
        bool_atoms(e.operand, out)
    else:
        out.append(e)
    return out


def bool_eval(e, asg):
    if isinstance(e, ast.BoolOp):
        vs = [bool_eval(v, asg) for v in e.values]
        return all(vs) if isinstance(e.op, ast.And) else any(vs)
    if isinstance(e, ast.UnaryOp) and isinstance(e.op, ast.Not):
        return not bool_eval(e.operand, asg)
    return asg[id(e)]


def edge_implies(test, label, classify, goal, max_atoms=8):
    """Does taking the `label` edge of `test` imply `goal`?
    classify(atom) -> (kind, polarity) or None; an atom of kind k with polarity p
    contributes fact k = (atom value == p).  goal(facts: dict kind -> bool|None) -> bool.
    Returns True only if goal holds under every truth assignment of the atoms that
    is consistent with the edge, and at least one atom is classified."""
    import itertools
    atoms = bool_atoms(test)
    if len(atoms) > max_atoms:
        return False
    kinds = {id(a): classify(a) for a in atoms}
    if not any(kinds.values()):
        return False
    any_consistent = False
    for bits in itertools.product([False, True], repeat=len(atoms)):
        asg = {id(a): b for a, b in zip(atoms, bits)}
        # atoms with identical source text must agree
        texts = {}
        okc = True
        for a in atoms:
            t = src(a)
            if t in texts and texts[t] != asg[id(a)]:
                okc = False
            texts[t] = asg[id(a)]
        if not okc:
            continue
        if bool_eval(test, asg) != (label == "T"):
            continue
        any_consistent = True
        facts = {}
        for a in atoms:
            k = kinds[id(a)]
            if k:
                facts[k[0]] = (asg[id(a)] == k[1])
        if not goal(facts):
            return False
    return any_consistent
