"""Shared rule helpers on top of cfg/resolve."""
from __future__ import annotations

import ast

from .cfg import CFG, edge_facts
from .loader import AnchorError, FuncInfo, is_self_attr, short, src, walk_no_nested, dotted


def where(fi: FuncInfo, node) -> str:
    return f"{fi.module.rel}:{getattr(node, 'lineno', getattr(getattr(node, 'stmt', None), 'lineno', 0)) or (node.line if hasattr(node, 'line') else 0)}"


def cfg_of(fi: FuncInfo, led=None, cache={}, **kw) -> CFG:
    key = (id(fi.node), tuple(sorted(kw)))
    if key not in cache:
        cache[key] = CFG(fi.node, **kw)
        if led is not None:
            led.note_cfg(fi, cache[key])
    return cache[key]


def edge_guards(cfg: CFG, node):
    """[(test node, label)]: edges whose removal makes `node` unreachable from
    entry, i.e. every path to `node` takes that edge (edge dominators among
    test/for nodes)."""
    out = []
    base = cfg.reach(starts=[cfg.entry])
    if node not in base:
        return out
    for t in cfg.nodes:
        if t.kind not in ("test", "for") or t not in base:
            continue
        for lab in ("T", "F"):
            if not any(l == lab for _, l in t.succ):
                continue
            seen = cfg.reach(starts=[cfg.entry], cut=lambda a, b, l, _t=t, _lab=lab: a is _t and l == _lab)
            if node not in seen:
                out.append((t, lab))
    return out


def guard_facts(cfg: CFG, node):
    """all (atom expr, polarity, test node) that definitely hold whenever `node` executes"""
    out = []
    for t, lab in edge_guards(cfg, node):
        if t.kind != "test":
            continue
        for atom, pol in edge_facts(t.ast, lab):
            out.append((atom, pol, t))
    return out


def mentions(expr, pred) -> bool:
    return any(pred(x) for x in ast.walk(expr))


def mentions_attr(expr, attr, base=None) -> bool:
    for x in ast.walk(expr):
        if isinstance(x, ast.Attribute) and x.attr == attr:
            if base is None or (isinstance(x.value, ast.Name) and x.value.id == base):
                return True
    return False


def mentions_name(expr, name) -> bool:
    return any(isinstance(x, ast.Name) and x.id == name for x in ast.walk(expr))


def calls_named(fnnode, name):
    """Call nodes inside fnnode (not nested defs) whose simple callee name is `name`"""
    out = []
    for n in walk_no_nested(fnnode):
        if isinstance(n, ast.Call):
            f = n.func
            if (isinstance(f, ast.Attribute) and f.attr == name) or (isinstance(f, ast.Name) and f.id == name):
                out.append(n)
    return sorted(out, key=lambda c: (c.lineno, c.col_offset))


def in_cycle(cfg: CFG, node) -> bool:
    """node lies on a CFG cycle (can execute more than once per call)"""
    seen = cfg.reach(start_edges=cfg.out_edges(node))
    return node in seen


# ----------------------------------------------------------------------
# attribute / container write discovery

MUTATORS = {"append", "extend", "insert", "pop", "popitem", "remove", "clear", "update", "setdefault",
            "add", "discard", "sort", "reverse", "appendleft", "popleft", "__setitem__", "__delitem__",
            "difference_update", "intersection_update", "symmetric_difference_update"}


def attr_writes(fnnode, attr, base=None):
    """Statements/expressions in fnnode that (re)bind or mutate `<base>.attr`:
    returns list of (kind, node) with kind in assign / augassign / subscript-store /
    subscript-del / del / mutcall:<method> .  base None = any receiver."""
    out = []

    def is_target(x):
        return isinstance(x, ast.Attribute) and x.attr == attr and (
            base is None or (isinstance(x.value, ast.Name) and x.value.id == base) or
            (isinstance(base, str) and dotted(x.value) == base))

    def targets_of(t):
        if isinstance(t, (ast.Tuple, ast.List)):
            for e in t.elts:
                yield from targets_of(e)
        elif isinstance(t, ast.Starred):
            yield from targets_of(t.value)
        else:
            yield t

    for n in walk_no_nested(fnnode):
        if isinstance(n, ast.Assign):
            for t0 in n.targets:
                for t in targets_of(t0):
                    if is_target(t):
                        out.append(("assign", n))
                    elif isinstance(t, ast.Subscript) and is_target(t.value):
                        out.append(("subscript-store", n))
        elif isinstance(n, ast.AnnAssign):
            if is_target(n.target) and n.value is not None:
                out.append(("assign", n))
            elif isinstance(n.target, ast.Subscript) and is_target(n.target.value):
                out.append(("subscript-store", n))
        elif isinstance(n, ast.AugAssign):
            if is_target(n.target):
                out.append(("augassign", n))
            elif isinstance(n.target, ast.Subscript) and is_target(n.target.value):
                out.append(("subscript-store", n))
        elif isinstance(n, ast.Delete):
            for t in n.targets:
                if is_target(t):
                    out.append(("del", n))
                elif isinstance(t, ast.Subscript) and is_target(t.value):
                    out.append(("subscript-del", n))
        elif isinstance(n, ast.Call) and isinstance(n.func, ast.Attribute) and n.func.attr in MUTATORS and is_target(n.func.value):
            out.append((f"mutcall:{n.func.attr}", n))
        elif isinstance(n, ast.For):
            for t in targets_of(n.target):
                if is_target(t):
                    out.append(("assign", n))
        elif isinstance(n, ast.Call) and isinstance(n.func, ast.Name) and n.func.id == "setattr" and len(n.args) >= 2:
            a = n.args[1]
            if isinstance(a, ast.Constant) and a.value == attr:
                out.append(("setattr", n))
    return out


def package_attr_writes(project, attr, base=None):
    """[(FuncInfo, kind, node)] over every function of the package"""
    out = []
    for fi in project.all_funcs:
        for kind, n in attr_writes(fi.node, attr, base):
            out.append((fi, kind, n))
    return out


# ----------------------------------------------------------------------
# folding tests on one enum-valued variable

def fold_test(test, env):
    """Three-valued evaluation of a test expression given env: name -> set of
    possible dotted constants (e.g. {'LockResult.BLOCKED'}) or python constants.
    Returns True / False / None."""
    if isinstance(test, ast.UnaryOp) and isinstance(test.op, ast.Not):
        v = fold_test(test.operand, env)
        return None if v is None else (not v)
    if isinstance(test, ast.BoolOp):
        vals = [fold_test(v, env) for v in test.values]
        if isinstance(test.op, ast.And):
            if any(v is False for v in vals):
                return False
            if all(v is True for v in vals):
                return True
            return None
        if any(v is True for v in vals):
            return True
        if all(v is False for v in vals):
            return False
        return None
    if isinstance(test, ast.Compare) and len(test.ops) == 1:
        l, op, r = test.left, test.ops[0], test.comparators[0]
        lk, rk = _sym(l), _sym(r)
        if lk in env or rk in env:
            if rk in env and lk not in env:
                lk, rk, l, r = rk, lk, r, l
                if isinstance(op, (ast.In, ast.NotIn)):
                    return None
            vals = env[lk]
            if isinstance(op, (ast.Eq, ast.NotEq, ast.Is, ast.IsNot)):
                c = _const(r, env)
                if c is None:
                    return None
                res = None
                if all(v in c for v in vals) and len(c) == 1:
                    res = True
                elif not (set(vals) & set(c)):
                    res = False
                if res is None:
                    return None
                return res if isinstance(op, (ast.Eq, ast.Is)) else (not res)
            if isinstance(op, (ast.In, ast.NotIn)) and isinstance(r, (ast.Tuple, ast.List, ast.Set)):
                cs = []
                for e in r.elts:
                    c = _const(e, env)
                    if c is None or len(c) != 1:
                        return None
                    cs.append(next(iter(c)))
                res = None
                if all(v in cs for v in vals):
                    res = True
                elif not any(v in cs for v in vals):
                    res = False
                if res is None:
                    return None
                return res if isinstance(op, ast.In) else (not res)
        return None
    if isinstance(test, ast.Constant):
        return bool(test.value)
    k = _sym(test)
    if k in env:
        vals = env[k]
        truth = {_truthy(v) for v in vals}
        if truth == {True}:
            return True
        if truth == {False}:
            return False
    return None


def _truthy(v):
    if isinstance(v, str) and "." in v:
        return True   # enum members are truthy
    return bool(v) if not isinstance(v, str) else (v not in ("None", "False", ""))


def _sym(e):
    d = dotted(e)
    return d


def _const(e, env):
    if isinstance(e, ast.Constant):
        return {repr(e.value) if not isinstance(e.value, str) else e.value}
    d = dotted(e)
    if d is None:
        return None
    if d in env:
        return set(env[d])
    if "." in d:
        parts = d.split(".")
        return {".".join(parts[-2:])}
    if d in ("None", "True", "False"):
        return {d}
    return None


def walk_folded(cfg: CFG, start_edges, env, avoid=(), kill_on_assign=True):
    """reachability from start_edges following only test edges consistent with
    env (see fold_test).  An assignment to a variable of env on the way removes
    it from the environment for what follows (conservatively: both edges)."""
    from collections import deque
    seen = {}
    dq = deque()
    frozen = tuple(sorted((k, tuple(sorted(v))) for k, v in env.items()))
    for a, b, lab in start_edges:
        if b in avoid:
            continue
        seen[(b, frozen)] = (a, lab, None)
        dq.append((b, frozen))
    result = {}
    while dq:
        n, fr = dq.popleft()
        result.setdefault(n, (n, fr))
        e = {k: set(v) for k, v in fr}
        # assignments kill
        if n.kind == "stmt" and kill_on_assign and isinstance(n.ast, (ast.Assign, ast.AugAssign, ast.AnnAssign)):
            tg = n.ast.targets if isinstance(n.ast, ast.Assign) else [n.ast.target]
            for t in tg:
                for x in ast.walk(t):
                    d = dotted(x)
                    if d in e:
                        del e[d]
        if n.kind == "for":
            for x in ast.walk(n.stmt.target):
                d = dotted(x)
                if d in e:
                    del e[d]
        fr2 = tuple(sorted((k, tuple(sorted(v))) for k, v in e.items()))
        verdict = fold_test(n.ast, e) if n.kind == "test" else None
        for m, lab in n.succ:
            if m in avoid:
                continue
            if verdict is True and lab == "F":
                continue
            if verdict is False and lab == "T":
                continue
            key = (m, fr2)
            if key in seen:
                continue
            seen[key] = (n, lab, fr)
            dq.append(key)
    result["__seen__"] = seen
    return result


def folded_path(result, node):
    """witness path [(node, label)] for a node reached by walk_folded"""
    seen = result["__seen__"]
    key = result[node]
    path = []
    guard = 0
    while key is not None and guard < 5000:
        guard += 1
        prev, lab, pfr = seen[key]
        path.append((key[0], lab))
        if pfr is None:
            path.append((prev, None))
            break
        key = (prev, pfr)
    path.reverse()
    return path


def enum_return_sites(fi: FuncInfo, enum_name: str):
    """[(member, Return node)] for `return Enum.MEMBER` statements"""
    out = []
    for n in walk_no_nested(fi.node):
        if isinstance(n, ast.Return) and n.value is not None:
            d = dotted(n.value)
            if d and d.split(".")[-2:-1] == [enum_name]:
                out.append((d.split(".")[-1], n))
    return out


# ----------------------------------------------------------------------
# truth-table reasoning about what holds on an out-edge of a test

def bool_atoms(e, out=None):
    """leaf atoms of a boolean expression (through and/or/not)"""
    if out is None:
        out = []
    if isinstance(e, ast.BoolOp):
        for v in e.values:
            bool_atoms(v, out)
    elif isinstance(e, ast.UnaryOp) and isinstance(e.op, ast.Not):
        bool_atoms(e.operand, out)
    else:
        out.append(e)
    return out


def bool_eval(e, asg):
    if isinstance(e, ast.BoolOp):
        vs = [bool_eval(v, asg) for v in e.values]
        return all(vs) if isinstance(e.op, ast.And) else any(vs)
    if isinstance(e, ast.UnaryOp) and isinstance(e.op, ast.Not):
        return not bool_eval(e.operand, asg)
    return asg[id(e)]


def edge_implies(test, label, classify, goal, max_atoms=8):
    """Does taking the `label` edge of `test` imply `goal`?
    classify(atom) -> (kind, polarity) or None; an atom of kind k with polarity p
    contributes fact k = (atom value == p).  goal(facts: dict kind -> bool|None) -> bool.
    Returns True only if goal holds under every truth assignment of the atoms that
    is consistent with the edge, and at least one atom is classified."""
    import itertools
    atoms = bool_atoms(test)
    if len(atoms) > max_atoms:
        return False
    kinds = {id(a): classify(a) for a in atoms}
    if not any(kinds.values()):
        return False
    any_consistent = False
    for bits in itertools.product([False, True], repeat=len(atoms)):
        asg = {id(a): b for a, b in zip(atoms, bits)}
        # atoms with identical source text must agree
        texts = {}
        okc = True
        for a in atoms:
            t = src(a)
            if t in texts and texts[t] != asg[id(a)]:
                okc = False
            texts[t] = asg[id(a)]
        if not okc:
            continue
        if bool_eval(test, asg) != (label == "T"):
            continue
        any_consistent = True
        facts = {}
        for a in atoms:
            k = kinds[id(a)]
            if k:
                facts[k[0]] = (asg[id(a)] == k[1])
        if not goal(facts):
            return False
    return any_consistent


# ----------------------------------------------------------------------
# guards established through helpers
def _result_kind(atom, pol):
    """(local name, kind) when the fact `atom == pol` says that a local holds None / not-None / truthy / falsy"""
    if isinstance(atom, ast.Compare) and len(atom.ops) == 1 and isinstance(atom.left, ast.Name) and isinstance(atom.comparators[0], ast.Constant) and atom.comparators[0].value is None:
        if isinstance(atom.ops[0], (ast.Is, ast.Eq)):
            return atom.left.id, ("none" if pol else "notnone")
        if isinstance(atom.ops[0], (ast.IsNot, ast.NotEq)):
            return atom.left.id, ("notnone" if pol else "none")
    if isinstance(atom, ast.Name):
        return atom.id, ("truthy" if pol else "falsy")
    return None


def _definitely(value, kind, res, fi, depth=0):
    """the returned expression can certainly NOT have `kind` (so that return needs no guard)"""
    if value is None or (isinstance(value, ast.Constant) and value.value is None):
        return kind in ("notnone", "truthy")
    if isinstance(value, ast.Constant):
        if kind == "none":
            return True
        if kind == "notnone":
            return False
        return bool(value.value) != (kind == "truthy")
    if isinstance(value, ast.Call) and depth < 3:
        c = res.class_by_name(value.func.id, fi.module) if isinstance(value.func, ast.Name) else None
        if c is not None:
            return kind in ("none", "falsy") and not any(m in c.methods for m in ("__bool__", "__len__")) or kind == "none"
        tg = res.resolve_call(fi, value)
        if tg and all(all(_definitely(r.value, kind, res, g, depth + 1) for r in ast.walk(g.node) if isinstance(r, ast.Return)) and _has_no_fallthrough(g) for g in tg):
            return True
    if isinstance(value, (ast.JoinedStr,)) and kind == "none":
        return True
    if isinstance(value, (ast.Tuple,)) and value.elts and kind in ("none", "falsy"):
        return True
    return False


def _has_no_fallthrough(g):
    from .cfg import CFG
    c = CFG(g.node)
    for n in c.nodes:
        if any(m is c.exit for m, _ in n.succ) and not (n.kind == "stmt" and isinstance(n.ast, ast.Return)):
            return False
    return True


def guard_established(res, fi, cfg, node, direct, led=None, depth=0, _busy=None):
    """Is a condition certainly established whenever `node` (a CFG node of fi) executes?

    `direct(fi, atom, polarity)` recognises an establishing fact on a dominating edge.  Besides direct facts, sees
    through (a) a helper whose result is tested (`r = self.h(x); if r is not None: return r`): on the continuing edge
    the helper returned a value of a known kind, and every return of that kind inside the helper must itself be
    established; (b) a dominating call of a helper whose every normal exit is established (it raises otherwise).
    Returns a description or None."""
    _busy = _busy or set()
    facts = guard_facts(cfg, node)
    for atom, pol, t in facts:
        if direct(fi, atom, pol):
            return f"`{short(atom, 70)}` = {pol}"
    if depth >= 3:
        return None
    # (a) tested helper result
    for atom, pol, t in facts:
        rk = _result_kind(atom, pol)
        if rk is None:
            continue
        name, kind = rk
        defs = [n for n in walk_no_nested(fi.node) if isinstance(n, ast.Assign) and any(isinstance(x, ast.Name) and x.id == name for x in n.targets)]
        defs += [n for n in walk_no_nested(fi.node) if isinstance(n, ast.NamedExpr) and isinstance(n.target, ast.Name) and n.target.id == name]
        if len(defs) != 1 or not isinstance(defs[0].value, ast.Call):
            continue
        hs = res.resolve_call(fi, defs[0].value)
        why = _helper_exits_established(res, hs, direct, led, depth, _busy, kind)
        if why:
            return f"`{short(atom, 50)}` = {pol} where {name} = {short(defs[0].value, 50)}: {why}"
    # direct call in the test: `if not self._admissible(x): return …`
    for atom, pol, t in facts:
        if isinstance(atom, ast.Call):
            hs = res.resolve_call(fi, atom)
            why = _helper_exits_established(res, hs, direct, led, depth, _busy, "truthy" if pol else "falsy")
            if why:
                return f"`{short(atom, 50)}` = {pol}: {why}"
    # (a') a table of guards run in a loop that is left as soon as one objects:
    #      for g in GUARDS: r = <dispatch g>(x); if r is not None: return …      — past the exhausted loop every guard said "none"
    for t, lab in edge_guards(cfg, node):
        if t.kind != "for" or lab != "F":
            continue
        loop = t.stmt if isinstance(getattr(t, "stmt", None), ast.For) else None
        if loop is None:
            continue
        for i, st in enumerate(loop.body):
            if not (isinstance(st, ast.Assign) and len(st.targets) == 1 and isinstance(st.targets[0], ast.Name) and isinstance(st.value, ast.Call)):
                continue
            v = st.targets[0].id
            nxt = loop.body[i + 1] if i + 1 < len(loop.body) else None
            if not isinstance(nxt, ast.If) or nxt.orelse:
                continue
            leaves = bool(nxt.body) and isinstance(nxt.body[-1], (ast.Return, ast.Raise))
            if not leaves:
                continue
            kinds = [rk for atom, pol in edge_facts(nxt.test, "F") for rk in [_result_kind(atom, pol)] if rk and rk[0] == v]
            if not kinds:
                continue
            hs = res.resolve_call(fi, st.value)
            for g in hs:
                why = _helper_exits_established(res, [g], direct, led, depth, _busy, kinds[0][1])
                if why:
                    return f"the loop over `{short(loop.iter, 40)}` is exhausted only when every guard answered {kinds[0][1]}: {why}"
    # (b) dominating raising helper
    dom = cfg.dominators().get(node, set())
    for d in dom:
        if d is node or d.kind != "stmt" or not isinstance(d.ast, (ast.Expr, ast.Assign)):
            continue
        v = d.ast.value
        if not isinstance(v, ast.Call):
            continue
        if node in cfg.reach(starts=[cfg.entry], cut=lambda a, b, l, _d=d: a is _d and l != "exc"):
            continue        # reachable through the helper's exception edge
        hs = res.resolve_call(fi, v)
        why = _helper_exits_established(res, hs, direct, led, depth, _busy, None)
        if why:
            return f"dominated by `{short(v, 50)}`: {why}"
    return None


def _helper_exits_established(res, hs, direct, led, depth, busy, kind):
    if not hs:
        return None
    whys = []
    for g in hs:
        if g.key in busy or g.node is None:
            return None
        cg = cfg_of(g, led)
        exits = [n for n in cg.nodes if any(m is cg.exit for m, _ in n.succ)]
        n_checked = 0
        for x in exits:
            val = x.ast.value if (x.kind == "stmt" and isinstance(x.ast, ast.Return)) else None
            if kind is not None and _definitely(val, kind, res, g):
                continue
            n_checked += 1
            w = guard_established(res, g, cg, x, direct, led, depth + 1, busy | {g.key})
            if w is None:
                return None
            whys.append(w)
        if n_checked == 0:
            return None
    return f"every {'normal' if kind is None else kind + '-returning'} exit of {', '.join(g.qual for g in hs)} passes {whys[0]}"


# ----------------------------------------------------------------------
# private fields found through the public API that exposes them (so renaming a private field is not an event)
def accessor_field(p, ci, method):
    """the attribute X such that public `method` returns `self.X` (its only return); None if it has another shape"""
    m = p.find_method(ci, method)
    if m is None:
        return None
    rets = [n for n in walk_no_nested(m.node) if isinstance(n, ast.Return)]
    if len(rets) == 1 and is_self_attr(rets[0].value):
        return rets[0].value.attr
    return None


def dict_key_field(p, ci, method, key):
    """the attribute X such that public `method` builds a dict / calls a constructor with `key`: self.X (possibly
    wrapped: self.X.value, len(self.X), round(self.X, 2))"""
    m = p.find_method(ci, method)
    if m is None:
        return None
    for n in walk_no_nested(m.node):
        vals = []
        if isinstance(n, ast.Dict):
            vals = [v for k, v in zip(n.keys, n.values) if isinstance(k, ast.Constant) and k.value == key]
        elif isinstance(n, ast.Call):
            vals = [k.value for k in n.keywords if k.arg == key]
        for v in vals:
            for x in ast.walk(v):
                if is_self_attr(x):
                    return x.attr
    return None


def resolved_src(fi, e, depth=0):
    """source text of `e` with locals that have exactly one definition in fi replaced by that definition (recursively),
    so that `n = x.lower(); n in h` reads `x.lower() in h`"""
    if depth > 4:
        return src(e)

    class T(ast.NodeTransformer):
        def visit_Name(self, node):
            if isinstance(node.ctx, ast.Load):
                defs = [n for n in walk_no_nested(fi.node) if isinstance(n, ast.Assign) and len(n.targets) == 1 and isinstance(n.targets[0], ast.Name) and n.targets[0].id == node.id]
                if len(defs) == 1 and node.id not in fi.params():
                    try:
                        return ast.parse(resolved_src(fi, defs[0].value, depth + 1), mode="eval").body
                    except SyntaxError:
                        return node
            return node
    import copy
    return src(T().visit(copy.deepcopy(e)))


# ----------------------------------------------------------------------
# stale memo: a method that returns a stored result under a validity key which does not determine what the
# computation reads
_BY_VALUE = ("tuple", "frozenset", "str", "repr", "sorted", "list", "dict", "hash")


def memo_findings(p, res, fi):
    """[(node, text)] for every memoised return of fi whose validity key can stay equal while the state the
    computation reads changes.  Sound cases accepted: the key takes the state by value (tuple(self.A), …); the key takes
    len(self.A) and A only ever grows (every other mutator of A also resets the memo); the key is a version attribute
    that every mutator of A also bumps.  Attributes never written after construction are configuration."""
    ci = fi.cls
    if ci is None:
        return []
    out = []
    stored = {}
    for n in walk_no_nested(fi.node):
        if isinstance(n, (ast.Assign, ast.AnnAssign)):
            for t in (n.targets if isinstance(n, ast.Assign) else [n.target]):
                if is_self_attr(t) and n.value is not None and not (isinstance(n.value, ast.Constant) and n.value.value is None):
                    stored.setdefault(t.attr, []).append(n)
    for n in walk_no_nested(fi.node):
        if not isinstance(n, ast.If):
            continue
        memo_attrs = [a for a in stored if any(is_self_attr(x, a) for x in ast.walk(n.test))]
        if not memo_attrs:
            continue
        rets = [r for st in n.body for r in ast.walk(st) if isinstance(r, ast.Return) and r.value is not None]
        for M in memo_attrs:
            if not any(any(is_self_attr(x, M) for x in ast.walk(r.value)) for r in rets):
                continue
            # the key: the side of an ==/is comparison in the test that does not mention the memo
            keys = []
            for c in ast.walk(n.test):
                if isinstance(c, ast.Compare) and len(c.ops) == 1 and isinstance(c.ops[0], (ast.Eq, ast.Is)):
                    sides = [c.left, c.comparators[0]]
                    km = [s_ for s_ in sides if not any(is_self_attr(x, M) for x in ast.walk(s_))]
                    if len(km) == 1:
                        keys.append(km[0])
            kexprs = []
            for k in keys:
                if isinstance(k, ast.Name):
                    defs = [a.value for a in walk_no_nested(fi.node) if isinstance(a, ast.Assign) and len(a.targets) == 1 and isinstance(a.targets[0], ast.Name) and a.targets[0].id == k.id]
                    kexprs.extend(defs or [k])
                else:
                    kexprs.append(k)
            # what the memoised computation reads: self attributes used after the guard (and in same-class callees)
            reads = set()
            after = False
            for st in ast.walk(fi.node):
                pass
            body_after = _statements_after(fi.node, n)
            fns = [body_after]
            for st in body_after:
                for c in ast.walk(st):
                    if isinstance(c, ast.Call):
                        for g in res.resolve_call(fi, c):
                            if g.cls is ci and g is not fi:
                                fns.append(g.node.body)
            for body in fns:
                for st in body:
                    for x in ast.walk(st):
                        if is_self_attr(x) and x.attr != M and isinstance(x.ctx, ast.Load) and x.attr not in ci.methods:
                            reads.add(x.attr)
            for A in sorted(reads):
                writes = [(g, k, w) for g, k, w in package_attr_writes(p, A, None) if not (g.cls is ci and g.name in ("__init__", "__post_init__")) and (g.cls is ci or res.expr_class(g, _write_base(w, A)) is ci or g.cls is None)]
                writes = [(g, k, w) for g, k, w in writes if g.cls is ci]
                if not writes:
                    continue        # configuration: never written after construction
                by_value = any(isinstance(c, ast.Call) and isinstance(c.func, ast.Name) and c.func.id in _BY_VALUE and any(is_self_attr(x, A) for a_ in c.args for x in ast.walk(a_)) for k in kexprs for c in ast.walk(k))
                if by_value:
                    continue
                by_len = any(isinstance(c, ast.Call) and isinstance(c.func, ast.Name) and c.func.id == "len" and c.args and is_self_attr(c.args[0], A) for k in kexprs for c in ast.walk(k))
                versions = [x.attr for k in kexprs for x in ast.walk(k) if is_self_attr(x) and x.attr != A and not any(isinstance(c, ast.Call) and isinstance(c.func, ast.Name) and c.func.id == "len" and c.args and c.args[0] is x for c in ast.walk(k))]

                def resets_memo(g):
                    return any(k_ in ("assign", "del") for k_, _ in attr_writes(g.node, M, "self"))

                def bumps(g, V):
                    return any(k_ in ("augassign", "assign") for k_, _ in attr_writes(g.node, V, "self"))
                bad = []
                for g, k, w in writes:
                    if resets_memo(g):
                        continue
                    if any(bumps(g, V) for V in versions):
                        continue
                    if by_len and k in ("mutcall:append", "mutcall:extend", "mutcall:add", "mutcall:update"):
                        # growth changes len — unless the same function also shrinks A (a sliding window)
                        shrinks = any(k2 not in ("mutcall:append", "mutcall:extend", "mutcall:add", "mutcall:update") for k2, _ in attr_writes(g.node, A, "self"))
                        if not shrinks:
                            continue
                    bad.append((g, k, w))
                if bad:
                    g, k, w = bad[0]
                    out.append((n, f"`{short(n.test, 70)}` returns the stored self.{M}, but the computation reads self.{A}, which {g.qual} changes (`{short(w, 50)}`) without changing the key "
                                   f"({', '.join(short(k_, 40) for k_ in kexprs) or 'no key'}) or resetting the memo: the stored result goes stale"))
                    break
    return out


def _write_base(w, attr):
    for x in ast.walk(w):
        if isinstance(x, ast.Attribute) and x.attr == attr:
            return x.value
    return None


def _statements_after(fn, node):
    """statements of fn (flattened by blocks) that follow `node` in its own block and in the enclosing ones"""
    out = []

    def visit(body):
        found = False
        for i, st in enumerate(body):
            if st is node:
                out.extend(body[i + 1:])
                return True
            for fld in ("body", "orelse", "finalbody"):
                b = getattr(st, fld, None)
                if isinstance(b, list) and b and isinstance(b[0], ast.AST) and visit(b):
                    out.extend(body[i + 1:])
                    return True
            if isinstance(st, ast.Try):
                for h in st.handlers:
                    if visit(h.body):
                        out.extend(body[i + 1:])
                        return True
        return found
    visit(fn.body)
    return out


def elapsed_component(text):
    """does the symbolic text of a compared quantity use a *component* of a timedelta (`.seconds` / `.microseconds`) in
    place of the whole duration (`.total_seconds()`, or the timedelta itself)?  `.seconds` drops the days: a limit compared
    with it stops firing after 24 h.  A text that also mentions `.days` accounts for them and is accepted."""
    import re
    return bool(re.search(r"(?<!total_)\.(seconds|microseconds)\b(?!\()", text)) and ".days" not in text


_MUTATORS = {"update", "append", "add", "setdefault", "pop", "popitem", "clear", "extend", "remove", "insert", "discard", "sort", "reverse", "__setitem__", "__delitem__"}


def class_table_mutations(ci):
    """[(method, node, table, via)]: places where an *instance* method changes a mutable container that lives on the class
    (a dict / list / set literal or constructor in the class body) — directly (`self.T[k] = v`, `type(self).T.update(…)`,
    `Cls.T.append(…)`) or through an instance field that was bound to the class's container without copying
    (`self.filters = self.BUILTIN_FILTERS` … `self.filters.update(custom)`).  Such a write is shared by every instance:
    what one object registers changes how all the others behave."""
    import ast as _a

    def mutable_literal(v):
        if isinstance(v, (_a.Dict, _a.List, _a.Set, _a.DictComp, _a.ListComp, _a.SetComp)):
            return True
        return isinstance(v, _a.Call) and isinstance(v.func, _a.Name) and v.func.id in ("dict", "list", "set", "defaultdict", "OrderedDict", "Counter", "deque")
    tables = {n for n, v in ci.assigns.items() if v is not None and mutable_literal(v)}
    if not tables:
        return []

    def class_table_ref(e):
        """name of the class table `e` denotes (self.T / cls.T / type(self).T / <ClassName>.T), else None"""
        if isinstance(e, _a.Attribute) and e.attr in tables:
            b = e.value
            if isinstance(b, _a.Name) and b.id in ("self", "cls", ci.name):
                return e.attr
            if isinstance(b, _a.Call) and isinstance(b.func, _a.Name) and b.func.id == "type":
                return e.attr
            if isinstance(b, _a.Attribute) and b.attr == "__class__":
                return e.attr
        return None
    # instance fields that alias a class table (assigned from it without a copy), and never rebound to a copy elsewhere
    alias = {}
    own = set()
    for m in ci.methods.values():
        for n in _a.walk(m.node):
            if isinstance(n, _a.Assign) and len(n.targets) == 1 and isinstance(n.targets[0], _a.Attribute) and isinstance(n.targets[0].value, _a.Name) and n.targets[0].value.id == "self":
                f = n.targets[0].attr
                v = n.value
                # `self.T or {}` / `x if c else self.T`: may alias
                cands = [v] + ([*v.values] if isinstance(v, _a.BoolOp) else []) + ([v.body, v.orelse] if isinstance(v, _a.IfExp) else [])
                t = next((class_table_ref(c) for c in cands if class_table_ref(c)), None)
                if t and f not in tables:
                    alias[f] = t
                elif f in tables:
                    own.add(f)          # the instance gets its own attribute of the same name: later self.T is the instance's
    out = []
    for m in ci.methods.values():
        if m.name in ("__init_subclass__", "__class_getitem__"):
            continue
        is_cm = any(isinstance(d, _a.Name) and d.id == "classmethod" for d in getattr(m.node, "decorator_list", []))
        for n in _a.walk(m.node):
            tgt = None
            if isinstance(n, _a.Call) and isinstance(n.func, _a.Attribute) and n.func.attr in _MUTATORS:
                tgt = n.func.value
            elif isinstance(n, (_a.Assign, _a.AugAssign, _a.Delete)):
                ts = n.targets if isinstance(n, (_a.Assign, _a.Delete)) else [n.target]
                for t_ in ts:
                    if isinstance(t_, _a.Subscript):
                        tgt = t_.value
            if tgt is None:
                continue
            t = class_table_ref(tgt)
            if t and not (isinstance(tgt.value, _a.Name) and tgt.value.id == "self" and t in own):
                if is_cm:
                    continue            # a classmethod that maintains a class registry says so
                out.append((m, n, t, "directly"))
                continue
            if isinstance(tgt, _a.Attribute) and isinstance(tgt.value, _a.Name) and tgt.value.id == "self" and tgt.attr in alias:
                out.append((m, n, alias[tgt.attr], f"through self.{tgt.attr}, bound to the class's table without a copy"))
    return out


def datetime_awareness(e, fi, res, _depth=0):
    """'naive' / 'aware' / None (unknown) for an expression that yields a datetime: `datetime.now()` / `utcnow()` /
    `datetime(…)` without tzinfo are offset-naive, `datetime.now(tz)` / `datetime.now(timezone.utc)` / `fromtimestamp(x, tz)`
    are offset-aware; a local name or a `self.<field>` takes the kind of everything assigned to it (mixed ⇒ None)."""
    import ast as _a
    if _depth > 4:
        return None
    if isinstance(e, _a.Call):
        d = dotted(e.func) or ""
        last = d.split(".")[-1]
        if last == "utcnow" or (last == "now" and not e.args and not any(k.arg in ("tz", None) for k in e.keywords)):
            return "naive"
        if last == "now" and (e.args or any(k.arg == "tz" for k in e.keywords)):
            a0 = e.args[0] if e.args else next(k.value for k in e.keywords if k.arg == "tz")
            return "naive" if isinstance(a0, _a.Constant) and a0.value is None else "aware"
        if last in ("fromtimestamp",):
            return "aware" if len(e.args) > 1 or any(k.arg == "tz" for k in e.keywords) else "naive"
        if last == "astimezone":
            return "aware"
        if last == "replace" and any(k.arg == "tzinfo" for k in e.keywords):
            k = next(k for k in e.keywords if k.arg == "tzinfo")
            return "naive" if isinstance(k.value, _a.Constant) and k.value.value is None else "aware"
        return None
    if isinstance(e, _a.Attribute) and d_is_now_factory(e):
        return "naive"
    kinds = set()
    if isinstance(e, _a.Name):
        for n in _a.walk(fi.node):
            if isinstance(n, _a.Assign) and any(isinstance(t, _a.Name) and t.id == e.id for t in n.targets):
                kinds.add(datetime_awareness(n.value, fi, res, _depth + 1))
    elif is_self_attr(e) and fi.cls is not None:
        for m in fi.cls.methods.values():
            for n in _a.walk(m.node):
                if isinstance(n, _a.Assign) and any(is_self_attr(t, e.attr) for t in n.targets):
                    kinds.add(datetime_awareness(n.value, m, res, _depth + 1))
                if isinstance(n, _a.AnnAssign) and is_self_attr(n.target, e.attr) and n.value is not None:
                    kinds.add(datetime_awareness(n.value, m, res, _depth + 1))
    kinds.discard(None) if len(kinds) > 1 and None in kinds else None
    return kinds.pop() if len(kinds) == 1 else None


def d_is_now_factory(e):
    """`datetime.now` (uncalled) used as a default_factory: naive"""
    return (dotted(e) or "").endswith("datetime.now") or (dotted(e) or "") == "datetime.now"


def stale_shared_memos(p, res, rels):
    """[(method, store node, memo name, unkeyed self attributes)]: a memo that outlives the object — a mutable container bound
    at module level — is filled by a *method* under a key that does not mention instance state the memoised computation reads
    (`self.max_depth`, the profile's bounds …).  Another instance, or the same one after its configuration changed, is then
    answered with a value computed under different settings."""
    import ast as _a
    out = []
    for mod in [m for m in p.modules.values() if m.rel in rels]:
        memos = set()
        for st in mod.tree.body:
            tg = st.targets if isinstance(st, _a.Assign) else ([st.target] if isinstance(st, _a.AnnAssign) and st.value is not None else [])
            v = getattr(st, "value", None)
            if v is not None and (isinstance(v, (_a.Dict,)) or (isinstance(v, _a.Call) and (dotted(v.func) or "").split(".")[-1] in ("dict", "OrderedDict", "defaultdict", "WeakValueDictionary", "LRUCache"))):
                memos |= {t.id for t in tg if isinstance(t, _a.Name)}
        if not memos:
            continue
        # module-level helpers that file a value under one of their parameters (`_remember(key, value)`)
        helpers = {}
        for hf in [f for f in p.all_funcs if f.module is mod and f.cls is None]:
            ps = hf.params()
            for n in _a.walk(hf.node):
                if isinstance(n, _a.Assign) and len(n.targets) == 1 and isinstance(n.targets[0], _a.Subscript) and isinstance(n.targets[0].value, _a.Name) and n.targets[0].value.id in memos \
                        and isinstance(n.targets[0].slice, _a.Name) and n.targets[0].slice.id in ps:
                    helpers[hf.name] = (n.targets[0].value.id, ps.index(n.targets[0].slice.id))
        for fi in [f for f in p.all_funcs if f.module is mod and f.cls is not None and "self" in f.params()]:
            methods = set(fi.cls.methods)
            stores = []
            for n in _a.walk(fi.node):
                if isinstance(n, _a.Call) and isinstance(n.func, _a.Name) and n.func.id in helpers and len(n.args) > helpers[n.func.id][1]:
                    stores.append((n, helpers[n.func.id][0], n.args[helpers[n.func.id][1]]))
            for n in _a.walk(fi.node):
                if isinstance(n, _a.Assign) and len(n.targets) == 1 and isinstance(n.targets[0], _a.Subscript) and isinstance(n.targets[0].value, _a.Name) and n.targets[0].value.id in memos:
                    stores.append((n, n.targets[0].value.id, n.targets[0].slice))
                if isinstance(n, _a.Call) and isinstance(n.func, _a.Attribute) and n.func.attr == "setdefault" and isinstance(n.func.value, _a.Name) and n.func.value.id in memos and n.args:
                    stores.append((n, n.func.value.id, n.args[0]))
            if not stores:
                continue

            def self_attrs(e, depth=0):
                acc = set()
                for x in _a.walk(e):
                    if is_self_attr(x) and isinstance(x.ctx, _a.Load) and x.attr not in methods:
                        acc.add(x.attr)
                    if isinstance(x, _a.Name) and depth < 2:
                        for a in _a.walk(fi.node):
                            if isinstance(a, _a.Assign) and any(isinstance(t, _a.Name) and t.id == x.id for t in a.targets) and a.value is not e:
                                acc |= self_attrs(a.value, depth + 1)
                return acc
            reads = set()
            for x in _a.walk(fi.node):
                if is_self_attr(x) and isinstance(x.ctx, _a.Load) and x.attr not in methods:
                    reads.add(x.attr)
                if isinstance(x, _a.Call) and is_self_attr(x.func) and x.func.attr in methods:
                    callee = fi.cls.methods[x.func.attr]
                    reads |= {y.attr for y in _a.walk(callee.node) if is_self_attr(y) and isinstance(y.ctx, _a.Load) and y.attr not in methods}
            reads = {a for a in reads if "lock" not in a.lower() and not a.startswith("__")}
            for n, name, key in stores:
                missing = sorted(reads - self_attrs(key))
                if missing:
                    out.append((fi, n, name, missing))
    return out


def mutated_cached_values(p, res, rels, producers=("json.loads",)):
    """[(caller, call, helper, decorator, callee, store node)]: a memoised helper hands out a mutable value (the result of
    json.loads …); a caller passes it to a function that writes into that parameter in place — the cache then serves the
    modified value to every later call with the same key (any instance, any schema)."""
    import ast as _a
    out = []
    helpers = {}
    for f in p.all_funcs:
        if f.module.rel not in rels:
            continue
        deco = [d for d in getattr(f.node, "decorator_list", []) if any(k in src(d) for k in ("cache", "memo"))]
        if deco and any(isinstance(n, _a.Call) and dotted(n.func) in producers for n in walk_no_nested(f.node)):
            helpers[f.key] = (f, deco[0])
    if not helpers:
        return out
    # functions that hand a helper's value on unchanged (some `return helper(...)` / `return name` bound to one) count as helpers
    grew = True
    while grew:
        grew = False
        for f in p.all_funcs:
            if f.module.rel not in rels or f.key in helpers:
                continue
            names = {}
            for n in _a.walk(f.node):
                if isinstance(n, _a.Assign) and isinstance(n.value, _a.Call):
                    hk = next((t.key for t in res.resolve_call(f, n.value) if t.key in helpers), None)
                    if hk:
                        for t in n.targets:
                            if isinstance(t, _a.Name):
                                names[t.id] = hk
            for r in [n for n in walk_no_nested(f.node) if isinstance(n, _a.Return) and n.value is not None]:
                hk = None
                if isinstance(r.value, _a.Call):
                    hk = next((t.key for t in res.resolve_call(f, r.value) if t.key in helpers), None)
                elif isinstance(r.value, _a.Name):
                    hk = names.get(r.value.id)
                if hk:
                    helpers[f.key] = helpers[hk]
                    grew = True
                    break

    def writes_param(g, pname, depth=0):
        """first in-place write into parameter `pname` of g (before any rebinding of the name), directly or by passing it on"""
        for n in _a.walk(g.node):
            if isinstance(n, _a.Assign) and any(isinstance(t, _a.Name) and t.id == pname for t in n.targets):
                return None          # rebound (e.g. to a copy): conservative — treat as safe
        if depth < 2:
            for c in _a.walk(g.node):
                if isinstance(c, _a.Call):
                    for h2 in res.resolve_call(g, c):
                        hp = h2.params()
                        off2 = 1 if hp and hp[0] == "self" and isinstance(c.func, _a.Attribute) else 0
                        for i2, a2 in enumerate(c.args):
                            if isinstance(a2, _a.Name) and a2.id == pname and i2 + off2 < len(hp) and h2 is not g:
                                st2 = writes_param(h2, hp[i2 + off2], depth + 1)
                                if st2 is not None:
                                    return st2
        for n in _a.walk(g.node):
            if isinstance(n, (_a.Assign, _a.AugAssign)):
                for t in (n.targets if isinstance(n, _a.Assign) else [n.target]):
                    if isinstance(t, _a.Subscript) and isinstance(t.value, _a.Name) and t.value.id == pname:
                        return n
            if isinstance(n, _a.Call) and isinstance(n.func, _a.Attribute) and n.func.attr in ("update", "setdefault", "pop", "popitem", "clear", "append", "extend", "insert", "remove") \
                    and isinstance(n.func.value, _a.Name) and n.func.value.id == pname:
                return n
        return None
    for f in p.all_funcs:
        if f.module.rel not in rels or f.key in helpers:
            continue
        from_cache = {}
        for n in _a.walk(f.node):
            if isinstance(n, _a.Assign) and isinstance(n.value, _a.Call) and any(t.key in helpers for t in res.resolve_call(f, n.value)):
                hk = next(t.key for t in res.resolve_call(f, n.value) if t.key in helpers)
                for t in n.targets:
                    if isinstance(t, _a.Name):
                        from_cache[t.id] = hk
        if not from_cache:
            continue
        for c in _a.walk(f.node):
            if not isinstance(c, _a.Call):
                continue
            for g in res.resolve_call(f, c):
                gp = g.params()
                off = 1 if gp and gp[0] == "self" and isinstance(c.func, _a.Attribute) else 0
                for i, a in enumerate(c.args):
                    if isinstance(a, _a.Name) and a.id in from_cache and i + off < len(gp):
                        st = writes_param(g, gp[i + off])
                        if st is not None:
                            h, d = helpers[from_cache[a.id]]
                            out.append((f, c, h, d, g, st))
    return out
