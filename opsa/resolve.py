"""Constructor-driven resolver: classes of `self.<attr>`, locals and
parameters; call resolution inside the package; call graph with unresolved
callees kept explicit."""
from __future__ import annotations

import ast

from .loader import Project, ClassInfo, FuncInfo, is_self_attr, walk_no_nested, dotted


class _NoCls:
    assigns, methods, annots, bases, name = {}, {}, {}, [], ""


_NOCLS = _NoCls()


class Resolver:
    def __init__(self, project: Project):
        self.p = project
        self._attr_cache = {}
        self._cg = None

    # ---------------------------------------------------------------- types
    def ann_class(self, ann, module) -> ClassInfo | None:
        """class named by an annotation (X, X | None, Optional[X], 'X')"""
        if ann is None:
            return None
        if isinstance(ann, ast.Constant) and isinstance(ann.value, str):
            try:
                ann = ast.parse(ann.value, mode="eval").body
            except SyntaxError:
                return None
        if isinstance(ann, ast.Name):
            return self.class_by_name(ann.id, module)
        if isinstance(ann, ast.Attribute):
            return self.class_by_name(ann.attr, module)
        if isinstance(ann, ast.BinOp) and isinstance(ann.op, ast.BitOr):
            return self.ann_class(ann.left, module) or self.ann_class(ann.right, module)
        if isinstance(ann, ast.Subscript):
            d = dotted(ann.value)
            if d and d.split(".")[-1] == "Optional":
                return self.ann_class(ann.slice, module)
        return None

    def class_by_name(self, name, module=None) -> ClassInfo | None:
        cands = self.p.classes.get(name, [])
        if not cands:
            return None
        if len(cands) == 1:
            return cands[0]
        if module is not None:
            # prefer the one the module imports / defines
            for c in cands:
                if c.module is module:
                    return c
            tgt = module.imports.get(name)
            if tgt:
                for c in cands:
                    if tgt.startswith(c.module.name):
                        return c
        return None

    def attr_class(self, ci: ClassInfo, attr: str) -> ClassInfo | None:
        key = (ci.key, attr)
        if key in self._attr_cache:
            return self._attr_cache[key]
        self._attr_cache[key] = None
        res = None
        # dataclass / annotated class-level field
        if attr in ci.annots:
            res = self.ann_class(ci.annots[attr], ci.module)
        if res is None:
            for m in ci.methods.values():
                for n in walk_no_nested(m.node):
                    tgt = val = ann = None
                    if isinstance(n, ast.Assign) and len(n.targets) == 1:
                        tgt, val = n.targets[0], n.value
                    elif isinstance(n, ast.AnnAssign):
                        tgt, val, ann = n.target, n.value, n.annotation
                    if tgt is None or not is_self_attr(tgt, attr):
                        continue
                    c = self.ann_class(ann, ci.module) if ann is not None else None
                    if c is None and val is not None:
                        c = self.expr_class(m, val)
                    if c is not None:
                        res = c
                        break
                if res is not None:
                    break
        if res is None:
            for b in ci.bases:
                for bc in self.p.classes.get(b, []):
                    res = self.attr_class(bc, attr)
                    if res:
                        break
        self._attr_cache[key] = res
        return res

    def local_class(self, fi: FuncInfo, name: str) -> ClassInfo | None:
        key = (fi.key, name)
        if not hasattr(self, "_local_cache"):
            self._local_cache = {}
            self._local_busy = set()
        if key in self._local_cache:
            return self._local_cache[key]
        if key in self._local_busy:
            return None
        self._local_busy.add(key)
        try:
            r = self._local_class(fi, name)
        finally:
            self._local_busy.discard(key)
        self._local_cache[key] = r
        return r

    def _local_class(self, fi: FuncInfo, name: str) -> ClassInfo | None:
        a = fi.node.args
        for arg in a.posonlyargs + a.args + a.kwonlyargs:
            if arg.arg == name:
                if name == "self" and fi.cls:
                    return fi.cls
                return self.ann_class(arg.annotation, fi.module)
        found = None
        for n in walk_no_nested(fi.node):
            if isinstance(n, ast.Assign) and len(n.targets) == 1 and isinstance(n.targets[0], ast.Name) and n.targets[0].id == name:
                c = self.expr_class(fi, n.value, _skip=name)
                if c is not None:
                    found = c
            elif isinstance(n, ast.AnnAssign) and isinstance(n.target, ast.Name) and n.target.id == name:
                c = self.ann_class(n.annotation, fi.module)
                if c is not None:
                    found = c
            elif isinstance(n, (ast.With,)):
                for it in n.items:
                    if isinstance(it.optional_vars, ast.Name) and it.optional_vars.id == name:
                        c = self.expr_class(fi, it.context_expr, _skip=name)
                        if c is not None:
                            found = c
        return found

    def expr_class(self, fi: FuncInfo, e, _skip=None) -> ClassInfo | None:
        """class of the value of expression e evaluated inside fi (None = unknown)"""
        if isinstance(e, ast.Name):
            if e.id == "self" and fi.cls:
                return fi.cls
            if e.id == _skip:
                return None
            return self.local_class(fi, e.id)
        if isinstance(e, ast.Attribute):
            base = self.expr_class(fi, e.value, _skip)
            if base is not None:
                return self.attr_class(base, e.attr)
            return None
        if isinstance(e, ast.Call):
            f = e.func
            if isinstance(f, ast.Name):
                c = self.class_by_name(f.id, fi.module)
                if c is not None:
                    return c
                # module-level function with return annotation
                for fn in self.p.functions.get(f.id, []):
                    return self.ann_class(fn.node.returns, fn.module)
            if isinstance(f, ast.Attribute):
                tgts = self.resolve_call(fi, e)
                for t in tgts:
                    c = self.ann_class(t.node.returns, t.module)
                    if c is not None:
                        return c
            return None
        if isinstance(e, ast.Subscript):
            ann = self.expr_annotation(fi, e.value)
            return self.elem_class(ann, fi.module)
        if isinstance(e, ast.BoolOp):
            for v in e.values:
                c = self.expr_class(fi, v, _skip)
                if c is not None:
                    return c
        if isinstance(e, ast.IfExp):
            return self.expr_class(fi, e.body, _skip) or self.expr_class(fi, e.orelse, _skip)
        return None

    def attr_annotation(self, ci: ClassInfo, attr: str):
        if attr in ci.annots:
            return ci.annots[attr]
        for m in ci.methods.values():
            for n in walk_no_nested(m.node):
                if isinstance(n, ast.AnnAssign) and is_self_attr(n.target, attr):
                    return n.annotation
        for b in ci.bases:
            for bc in self.p.classes.get(b, []):
                a = self.attr_annotation(bc, attr)
                if a is not None:
                    return a
        return None

    def expr_annotation(self, fi: FuncInfo, e):
        """declared annotation of an attribute / parameter expression (for container element types)"""
        if isinstance(e, ast.Attribute):
            base = self.expr_class(fi, e.value)
            if base is not None:
                return self.attr_annotation(base, e.attr)
        if isinstance(e, ast.Name):
            a = fi.node.args
            for arg in a.posonlyargs + a.args + a.kwonlyargs:
                if arg.arg == e.id:
                    return arg.annotation
            for n in walk_no_nested(fi.node):
                if isinstance(n, ast.AnnAssign) and isinstance(n.target, ast.Name) and n.target.id == e.id:
                    return n.annotation
        return None

    def elem_class(self, ann, module):
        """value/element class of dict[K, V] / list[V] / set[V] / Optional[...] annotations"""
        if ann is None:
            return None
        if isinstance(ann, ast.Constant) and isinstance(ann.value, str):
            try:
                ann = ast.parse(ann.value, mode="eval").body
            except SyntaxError:
                return None
        if isinstance(ann, ast.BinOp) and isinstance(ann.op, ast.BitOr):
            return self.elem_class(ann.left, module) or self.elem_class(ann.right, module)
        if isinstance(ann, ast.Subscript):
            d = (dotted(ann.value) or "").split(".")[-1]
            sl = ann.slice
            if d in ("dict", "Dict", "defaultdict", "OrderedDict", "Mapping", "MutableMapping"):
                if isinstance(sl, ast.Tuple) and len(sl.elts) == 2:
                    return self.ann_class(sl.elts[1], module)
            if d in ("list", "List", "set", "Set", "Sequence", "Iterable", "deque", "tuple", "Tuple", "frozenset"):
                if isinstance(sl, ast.Tuple):
                    return self.ann_class(sl.elts[0], module)
                return self.ann_class(sl, module)
            if d == "Optional":
                return self.elem_class(sl, module)
        return None

    # ---------------------------------------------------------------- calls
    def resolve_call(self, fi: FuncInfo, call: ast.Call) -> list[FuncInfo]:
        f = call.func
        if isinstance(f, ast.Name):
            c = self.class_by_name(f.id, fi.module)
            if c is not None:
                out = []
                for nm in ("__init__", "__post_init__"):
                    m = self.p.find_method(c, nm)
                    if m is not None:
                        out.append(m)
                return out
            fs = self.p.functions.get(f.id, [])
            if len(fs) == 1:
                return fs
            same = [x for x in fs if x.module is fi.module]
            if same:
                return same[:1]
            return self.dispatch_targets(fi, f)
        if isinstance(f, ast.Attribute):
            # super().m()
            if isinstance(f.value, ast.Call) and isinstance(f.value.func, ast.Name) and f.value.func.id == "super" and fi.cls:
                for b in fi.cls.bases:
                    for bc in self.p.classes.get(b, []):
                        m = self.p.find_method(bc, f.attr)
                        if m:
                            return [m]
                return []
            c = self.expr_class(fi, f.value)
            if c is not None:
                m = self.p.find_method(c, f.attr)
                out = [m] if m else []
                # virtual dispatch: overriding subclasses when receiver is self
                if isinstance(f.value, ast.Name) and f.value.id == "self":
                    for sc in self.p.subclasses(c):
                        if f.attr in sc.methods:
                            out.append(sc.methods[f.attr])
                if out:
                    return out
        return self.dispatch_targets(fi, f)

    # ------------------------------------------------------------------
    # dynamic dispatch inside a class: getattr(self, name)(…), handler tables of method names / method references,
    # helpers that return a handler.  Over-approximating (every method named by the table is a target).
    def dispatch_targets(self, fi: FuncInfo, f, depth=0) -> list[FuncInfo]:
        if fi.cls is None and not isinstance(f, (ast.Name, ast.Subscript, ast.Call)):
            return []
        if isinstance(f, ast.Name):
            if f.id in fi.params() and f.id != "self":
                return []
            if not self._local_defs(fi, f.id):
                return []
        elif isinstance(f, ast.Call):
            # getattr(self, n)(…), TABLE.get(k)(…), and `self.lookup(x)(…)` where lookup returns a handler
            if not ((isinstance(f.func, ast.Name) and f.func.id == "getattr") or (isinstance(f.func, ast.Attribute) and f.func.attr in ("get", "pop", "setdefault"))
                    or (isinstance(f.func, ast.Attribute) and isinstance(f.func.value, ast.Name) and f.func.value.id in ("self", "cls"))):
                return []
        elif isinstance(f, ast.Subscript):
            pass
        else:
            return []
        out = {}
        for m in self._leaves(fi, f, 0, set()):
            out[m.key] = m
        return list(out.values())

    def closed_name(self, fi, e, depth=0):
        """True when expression `e` (the name argument of a getattr) can only take string values written in the
        source: a constant, or a local every definition of which iterates / indexes / .get()s a literal table of the
        class or module (or another such local).  Parameters and anything computed are open."""
        if depth > 5 or e is None:
            return False
        if isinstance(e, ast.Constant):
            return isinstance(e.value, str) or e.value is None
        if isinstance(e, ast.Name):
            if e.id in fi.params():
                return False
            defs = self._local_defs(fi, e.id)
            if defs:
                return all(self.closed_name(fi, d, depth + 1) for d in defs)
            lit = self._table_literal(fi, e.id)
            return lit is not None and self._literal_closed(lit)
        if isinstance(e, ast.Attribute) and isinstance(e.value, ast.Name) and e.value.id in ("self", "cls"):
            lit = fi.cls.assigns.get(e.attr) if fi.cls is not None else None
            return lit is not None and self._literal_closed(lit)
        if isinstance(e, ast.Subscript):
            return self.closed_name(fi, e.value, depth + 1)
        if isinstance(e, ast.Call) and isinstance(e.func, ast.Attribute) and e.func.attr in ("get", "items", "values", "keys"):
            return self.closed_name(fi, e.func.value, depth + 1) and all(self.closed_name(fi, a, depth + 1) for a in e.args[1:])
        if isinstance(e, (ast.Tuple, ast.List, ast.Set)):
            return self._literal_closed(e)
        if isinstance(e, ast.Dict):
            return self._literal_closed(e)
        if isinstance(e, ast.IfExp):
            return self.closed_name(fi, e.body, depth + 1) and self.closed_name(fi, e.orelse, depth + 1)
        if isinstance(e, ast.Call) and isinstance(e.func, ast.Name) and e.func.id == "next" and e.args and isinstance(e.args[0], (ast.GeneratorExp, ast.ListComp)):
            # `next((name for member, name in self._TABLE if pathway == member), None)`: a row of a literal table, or the default
            return self.closed_name(fi, e.args[0], depth + 1) and all(self.closed_name(fi, a, depth + 1) for a in e.args[1:])
        if isinstance(e, (ast.GeneratorExp, ast.ListComp, ast.SetComp)):
            bound = set()
            for g in e.generators:
                if not self.closed_name(fi, g.iter, depth + 1):
                    return False
                bound |= {y.id for y in ast.walk(g.target) if isinstance(y, ast.Name)}
            el = e.elt
            return (isinstance(el, ast.Name) and el.id in bound) or isinstance(el, ast.Constant)
        return False

    def _table_literal(self, fi, name):
        if fi.cls is not None and name in fi.cls.assigns:
            return fi.cls.assigns[name]
        for st in fi.module.tree.body:
            if isinstance(st, ast.Assign) and any(isinstance(t, ast.Name) and t.id == name for t in st.targets):
                return st.value
            if isinstance(st, ast.AnnAssign) and isinstance(st.target, ast.Name) and st.target.id == name and st.value is not None:
                return st.value
        return None

    def _literal_closed(self, lit):
        """a display (tuple/list/set/dict, nested) whose leaves are constants, enum-style dotted names or method references"""
        if isinstance(lit, ast.Constant):
            return True
        if isinstance(lit, (ast.Tuple, ast.List, ast.Set)):
            return all(self._literal_closed(x) for x in lit.elts)
        if isinstance(lit, ast.Dict):
            return all(k is not None and self._literal_closed(k) and self._literal_closed(v) for k, v in zip(lit.keys, lit.values))
        if isinstance(lit, (ast.Name, ast.Attribute)):
            return True
        if isinstance(lit, ast.BinOp) and isinstance(lit.op, ast.Add):
            return self._literal_closed(lit.left) and self._literal_closed(lit.right)
        return False

    def _local_defs(self, fi, name):
        key = (fi.key, name)
        memo = self.__dict__.setdefault("_ldefs", {})
        if key in memo:
            return memo[key]
        out = []
        for n in ast.walk(fi.node):
            if isinstance(n, ast.Assign) and any(isinstance(x, ast.Name) and x.id == name for t in n.targets for x in ast.walk(t)):
                out.append(n.value)
            elif isinstance(n, ast.AnnAssign) and isinstance(n.target, ast.Name) and n.target.id == name and n.value is not None:
                out.append(n.value)
            elif isinstance(n, (ast.For, ast.comprehension)) and any(isinstance(x, ast.Name) and x.id == name for x in ast.walk(n.target)):
                out.append(n.iter)
            elif isinstance(n, ast.NamedExpr) and isinstance(n.target, ast.Name) and n.target.id == name:
                out.append(n.value)
        memo[key] = out
        return out

    def _leaves(self, fi, e, depth, busy):
        """methods of fi.cls that expression `e` may denote (as a bound/unbound method or by name)"""
        cls = fi.cls if fi.cls is not None else _NOCLS
        if depth > 14 or e is None:
            return []
        out = []
        def method(name):
            m = self.p.find_method(cls, name) if cls is not _NOCLS else None
            if m is None:
                mf = [f for f in self.p.functions.get(name, []) if f.module is fi.module] if isinstance(name, str) else []
                return mf[:1]
            return [m]
        if isinstance(e, ast.Constant):
            return method(e.value) if isinstance(e.value, str) else []
        if isinstance(e, ast.Attribute):
            if isinstance(e.value, ast.Name) and e.value.id in ("self", "cls", cls.name):
                if e.attr in cls.assigns:
                    return self._leaves(fi, cls.assigns[e.attr], depth + 1, busy)
                return method(e.attr)
            return []
        if isinstance(e, ast.Name):
            k = (fi.key, e.id)
            if k in busy:
                return []
            busy = busy | {k}
            defs = self._local_defs(fi, e.id) if fi.node is not None else []
            if defs:
                for d in defs:
                    out.extend(self._leaves(fi, d, depth + 1, busy))
                return out
            if e.id in cls.assigns:
                return self._leaves(fi, cls.assigns[e.id], depth + 1, busy)
            mod_assign = getattr(fi.module, "assigns", {}).get(e.id) if hasattr(fi.module, "assigns") else None
            if mod_assign is None:
                for st in fi.module.tree.body:
                    if isinstance(st, ast.Assign) and any(isinstance(t, ast.Name) and t.id == e.id for t in st.targets):
                        mod_assign = st.value
                    elif isinstance(st, ast.AnnAssign) and isinstance(st.target, ast.Name) and st.target.id == e.id:
                        mod_assign = st.value
            if mod_assign is not None:
                return self._leaves(fi, mod_assign, depth + 1, busy)
            if e.id in cls.methods:
                return [cls.methods[e.id]]
            mf = [f for f in self.p.functions.get(e.id, []) if f.module is fi.module]
            if mf:
                return mf[:1]          # a module-level function named in a table
            return []
        if isinstance(e, ast.Call):
            fn = e.func
            if isinstance(fn, ast.Name) and fn.id == "getattr" and len(e.args) >= 2:
                r = self._leaves(fi, e.args[1], depth + 1, busy)
                if len(e.args) > 2:
                    r = r + self._leaves(fi, e.args[2], depth + 1, busy)
                return r
            if isinstance(fn, ast.Attribute) and fn.attr in ("get", "pop", "setdefault", "items", "values", "keys"):
                r = self._leaves(fi, fn.value, depth + 1, busy)
                for a in e.args[1:]:
                    r = r + self._leaves(fi, a, depth + 1, busy)
                return r
            if isinstance(fn, ast.Name) and fn.id in ("dict", "tuple", "list", "iter", "next", "sorted", "reversed", "enumerate", "zip"):
                for a in e.args:
                    out.extend(self._leaves(fi, a, depth + 1, busy))
                return out
            if isinstance(fn, ast.Attribute) and isinstance(fn.value, ast.Name) and fn.value.id in ("self", "cls"):
                g = self.p.find_method(cls, fn.attr)
                if g is not None and g.key not in busy:
                    b2 = busy | {g.key}
                    for n in ast.walk(g.node):
                        if isinstance(n, ast.Return) and n.value is not None:
                            out.extend(self._leaves(g, n.value, depth + 1, b2))
                return out
            return []
        if isinstance(e, ast.Subscript):
            return self._leaves(fi, e.value, depth + 1, busy)
        if isinstance(e, (ast.Tuple, ast.List, ast.Set)):
            for x in e.elts:
                out.extend(self._leaves(fi, x, depth + 1, busy))
            return out
        if isinstance(e, ast.Dict):
            for x in e.values:
                out.extend(self._leaves(fi, x, depth + 1, busy))
            return out
        if isinstance(e, ast.IfExp):
            return self._leaves(fi, e.body, depth + 1, busy) + self._leaves(fi, e.orelse, depth + 1, busy)
        if isinstance(e, ast.BoolOp):
            for x in e.values:
                out.extend(self._leaves(fi, x, depth + 1, busy))
            return out
        if isinstance(e, (ast.DictComp,)):
            return self._leaves(fi, e.value, depth + 1, busy)
        if isinstance(e, (ast.ListComp, ast.SetComp, ast.GeneratorExp)):
            return self._leaves(fi, e.elt, depth + 1, busy)
        if isinstance(e, ast.NamedExpr):
            return self._leaves(fi, e.value, depth + 1, busy)
        return []

    def callgraph(self):
        if self._cg is not None:
            return self._cg
        cg = {}
        unresolved = {}
        for fi in self.p.all_funcs:
            outs = []
            unr = []
            for n in ast.walk(fi.node):
                if isinstance(n, ast.Call):
                    t = self.resolve_call(fi, n)
                    if t:
                        outs.extend((x, n) for x in t)
                    else:
                        unr.append(n)
                elif isinstance(n, ast.Attribute) and isinstance(n.ctx, ast.Load) and isinstance(n.value, ast.Name) and n.value.id == "self" and fi.cls is not None:
                    # reading a @property runs its getter
                    m = self.p.find_method(fi.cls, n.attr)
                    if m is not None and any(isinstance(d, ast.Name) and d.id in ("property", "cached_property") or (isinstance(d, ast.Attribute) and d.attr in ("cached_property",)) for d in m.node.decorator_list):
                        outs.append((m, n))
                elif isinstance(n, ast.Attribute) and isinstance(n.ctx, ast.Store) and isinstance(n.value, ast.Name) and n.value.id == "self" and fi.cls is not None:
                    # assigning to a property runs its setter
                    st_ = getattr(fi.cls, "setters", {}).get(n.attr)
                    if st_ is not None and st_ is not fi:
                        outs.append((st_, n))
            cg[fi.key] = outs
            unresolved[fi.key] = unr
        self._cg = cg
        self._unres = unresolved
        self._by_key = {f.key: f for f in self.p.all_funcs}
        return cg

    def callees(self, fi):
        return self.callgraph().get(fi.key, [])

    def unresolved(self, fi):
        self.callgraph()
        return self._unres.get(fi.key, [])

    def reachable_from(self, fi: FuncInfo, depth=50):
        """set of FuncInfo reachable through resolved calls (fi included)"""
        cg = self.callgraph()
        seen = {fi.key: fi}
        todo = [fi]
        while todo:
            f = todo.pop()
            for g, _ in cg.get(f.key, []):
                if g.key not in seen:
                    seen[g.key] = g
                    todo.append(g)
        return list(seen.values())

    def callers_of(self, target: FuncInfo):
        """[(caller FuncInfo, call node)] package-wide"""
        cg = self.callgraph()
        out = []
        for k, outs in cg.items():
            for g, call in outs:
                if g.key == target.key:
                    out.append((self._by_key[k], call))
        return out
