"""opsa — operon static analyser (stdlib only; never imports /repo)."""
