"""Statement-level control-flow graph with exception edges.

One node per simple statement, per `if`/`while` test, per `for` header, per
`with` enter / exit, per `except` clause entry.  Edges carry labels:

  next   sequential flow
  T / F  outcome of a test (for a `for` header: T = next item, F = exhausted)
  exc    the statement raised; goes to every enclosing handler that may catch
         it, and to the exceptional exit when no enclosing handler is a
         catch-all
  ret    return -> EXIT
  back   loop back edge (continue or end of body)

Special nodes: entry, exit (normal return), raise (exceptional exit).

Queries are reachability-with-cuts (which also yield witness paths) and
dominators."""
from __future__ import annotations

import ast
import builtins
from collections import deque

from .loader import AnchorError, short

CATCH_ALL = {"Exception", "BaseException"}


def default_may_raise(n: ast.AST) -> bool:
    """Over-approximation of 'evaluating this statement/expression can raise':
    any call, subscript load, division-like operator, raise, assert, del."""
    if isinstance(n, (ast.Raise, ast.Assert, ast.Delete)):
        return True
    for x in _walk_expr(n):
        if isinstance(x, (ast.Call, ast.Await, ast.Yield, ast.YieldFrom)):
            return True
        if isinstance(x, ast.Subscript) and isinstance(x.ctx, (ast.Load, ast.Del)):
            return True
        if isinstance(x, ast.BinOp) and isinstance(x.op, (ast.Div, ast.FloorDiv, ast.Mod, ast.Pow)):
            return True
    return False


def _walk_expr(n):
    todo = [n]
    while todo:
        x = todo.pop()
        yield x
        if isinstance(x, (ast.Lambda, ast.FunctionDef, ast.ClassDef)) and x is not n:
            continue
        todo.extend(ast.iter_child_nodes(x))


class Node:
    __slots__ = ("id", "kind", "ast", "succ", "pred", "stmt", "note")

    def __init__(self, id, kind, astnode=None, stmt=None, note=""):
        self.id = id
        self.kind = kind
        self.ast = astnode
        self.stmt = stmt if stmt is not None else astnode
        self.succ = []   # (Node, label)
        self.pred = []   # (Node, label)
        self.note = note

    @property
    def line(self):
        return getattr(self.ast, "lineno", None) or getattr(self.stmt, "lineno", 0)

    def __repr__(self):
        if self.kind in ("entry", "exit", "raise"):
            return f"<{self.kind}>"
        return f"<{self.kind}@{self.line} {short(self.ast, 50) if self.ast is not None else ''}>"

    def describe(self):
        if self.kind in ("entry", "exit", "raise"):
            return {"entry": "ENTRY", "exit": "RETURN", "raise": "RAISE-TO-CALLER"}[self.kind]
        txt = short(self.ast, 60) if self.ast is not None else ""
        k = {"test": "if", "for": "for", "with": "with", "withexit": "end-with", "except": "except", "loopelse": "else"}.get(self.kind, "")
        return f"L{self.line} {k + ' ' if k else ''}{txt}"


class _Ctx:
    def __init__(self):
        self.handlers = []   # stack of callables: (node, raised_class_names|None) -> None  (adds exc edges)
        self.loops = []      # stack of dict(head=Node, breaks=[(node,label)])
        self.finals = []     # stack of finally-bodies (list[stmt]) between here and function exit


class CFG:
    def __init__(self, fn: ast.FunctionDef, may_raise=None, exc_classes=None):
        self.fn = fn
        self.may_raise = may_raise or default_may_raise
        self.exc_classes = exc_classes or {}   # project exception class -> base names
        self.nodes: list[Node] = []
        self.escaping = {}     # node id -> exception class names that reach the exceptional exit from that node ('*' = any)
        self.entry = self._new("entry")
        self.exit = self._new("exit")
        self.raise_exit = self._new("raise")
        self._by_ast = {}
        ctx = _Ctx()
        ends = self._block(fn.body, [(self.entry, "next")], ctx)
        for n, lab in ends:
            self._edge(n, self.exit, lab if lab in ("T", "F") else "next")
        self._index()

    # ------------------------------------------------------------ building
    def _new(self, kind, astnode=None, stmt=None, note=""):
        n = Node(len(self.nodes), kind, astnode, stmt, note)
        self.nodes.append(n)
        return n

    def _edge(self, a, b, label):
        if (b, label) not in a.succ:
            a.succ.append((b, label))
            b.pred.append((a, label))

    def _link(self, preds, node):
        for p, lab in preds:
            self._edge(p, node, lab)

    def _raise_from(self, node, ctx, raised=None):
        """add exc edges from node to every handler that may catch, outward"""
        # walk handler stack from innermost outwards
        for h in reversed(ctx.handlers):
            stop = h(node, raised)
            if stop:
                return
        self._edge(node, self.raise_exit, "exc")
        self.escaping.setdefault(node.id, set()).add(raised or "*")

    def _maybe_raise(self, node, expr, ctx):
        if expr is None:
            return
        r = self.may_raise(expr)
        if r is True:
            self._raise_from(node, ctx)
        elif r:
            for cls in sorted(r):
                self._raise_from(node, ctx, None if cls == "*" else cls)

    def _block(self, stmts, preds, ctx):
        for st in stmts:
            preds = self._stmt(st, preds, ctx)
        return preds

    def _stmt(self, st, preds, ctx):
        if isinstance(st, ast.If):
            t = self._new("test", st.test, st)
            self._link(preds, t)
            self._maybe_raise(t, st.test, ctx)
            cv = _const_truth(st.test)
            tp = [(t, "T")] if cv is not False else []
            fp = [(t, "F")] if cv is not True else []
            a = self._block(st.body, tp, ctx) if tp else []
            b = self._block(st.orelse, fp, ctx) if st.orelse else fp
            return a + b
        if isinstance(st, ast.While):
            t = self._new("test", st.test, st)
            self._link(preds, t)
            self._maybe_raise(t, st.test, ctx)
            cv = _const_truth(st.test)
            loop = {"head": t, "breaks": []}
            ctx.loops.append(loop)
            ends = self._block(st.body, [(t, "T")] if cv is not False else [], ctx)
            ctx.loops.pop()
            for n, lab in ends:
                self._edge(n, t, "back" if lab == "next" else lab)
            out = [(t, "F")] if cv is not True else []
            if st.orelse:
                out = self._block(st.orelse, out, ctx)
            return out + loop["breaks"]
        if isinstance(st, ast.For):
            h = self._new("for", st.iter, st)
            self._link(preds, h)
            self._maybe_raise(h, st.iter, ctx)
            loop = {"head": h, "breaks": []}
            ctx.loops.append(loop)
            ends = self._block(st.body, [(h, "T")], ctx)
            ctx.loops.pop()
            for n, lab in ends:
                self._edge(n, h, "back" if lab == "next" else lab)
            out = [(h, "F")]
            if st.orelse:
                out = self._block(st.orelse, out, ctx)
            return out + loop["breaks"]
        if isinstance(st, ast.With):
            w = self._new("with", st.items[0].context_expr if len(st.items) == 1 else st, st)
            self._link(preds, w)
            for it_ in st.items:
                self._maybe_raise(w, it_.context_expr, ctx)
            ends = self._block(st.body, [(w, "next")], ctx)
            x = self._new("withexit", None, st)
            self._link(ends, x)
            return [(x, "next")]
        if isinstance(st, ast.Try):
            return self._try(st, preds, ctx)
        if isinstance(st, ast.Return):
            n = self._new("stmt", st, st)
            self._link(preds, n)
            self._maybe_raise(n, st.value, ctx)
            if ctx.finals:
                # run enclosing finally bodies (innermost first) before leaving
                cur = [(n, "ret")]
                for depth in range(len(ctx.finals) - 1, -1, -1):
                    body, fctx_handlers, fctx_loops = ctx.finals[depth]
                    sub = _Ctx()
                    sub.handlers = list(fctx_handlers)
                    sub.loops = list(fctx_loops)
                    sub.finals = ctx.finals[:depth]
                    cur = self._block(body, cur, sub)
                for p, lab in cur:
                    self._edge(p, self.exit, "ret")
            else:
                self._edge(n, self.exit, "ret")
            return []
        if isinstance(st, ast.Raise):
            n = self._new("stmt", st, st)
            self._link(preds, n)
            raised = _raised_class(st)
            self._raise_from(n, ctx, raised)
            return []
        if isinstance(st, ast.Break):
            if not ctx.loops:
                raise AnchorError("break outside loop")
            n = self._new("stmt", st, st)
            self._link(preds, n)
            ctx.loops[-1]["breaks"].append((n, "next"))
            return []
        if isinstance(st, ast.Continue):
            n = self._new("stmt", st, st)
            self._link(preds, n)
            self._edge(n, ctx.loops[-1]["head"], "back")
            return []
        if isinstance(st, (ast.FunctionDef, ast.AsyncFunctionDef, ast.ClassDef)):
            n = self._new("stmt", st, st, note="def")
            self._link(preds, n)
            return [(n, "next")]
        if isinstance(st, ast.Match):
            # a chain of tests, one per case; a case whose pattern is irrefutable (wildcard / bare capture without guard) has no false edge
            subj = self._new("stmt", ast.Expr(value=st.subject, lineno=st.lineno, col_offset=st.col_offset), st, note="match-subject")
            self._link(preds, subj)
            self._maybe_raise(subj, st.subject, ctx)
            cur = [(subj, "next")]
            outs = []
            for case in st.cases:
                t = self._new("test", case.guard if case.guard is not None else ast.Constant(value=True), st, note=f"case {ast.unparse(case.pattern)}")
                self._link(cur, t)
                if case.guard is not None:
                    self._maybe_raise(t, case.guard, ctx)
                outs += self._block(case.body, [(t, "T")], ctx)
                irrefutable = case.guard is None and isinstance(case.pattern, ast.MatchAs) and case.pattern.pattern is None
                cur = [] if irrefutable else [(t, "F")]
            return outs + cur
        if isinstance(st, (ast.AsyncFor, ast.AsyncWith)) or type(st).__name__ == "TryStar":
            raise AnchorError(f"unsupported statement kind {type(st).__name__} at line {st.lineno}")
        # simple statement
        n = self._new("stmt", st, st)
        self._link(preds, n)
        self._maybe_raise(n, st, ctx)
        return [(n, "next")]

    def _try(self, st: ast.Try, preds, ctx):
        has_final = bool(st.finalbody)
        outer_handlers = list(ctx.handlers)
        outer_loops = list(ctx.loops)
        if has_final:
            # exceptional copy of the finally body: entered by exc edges, leaves outward
            fin_exc_entry = self._new("finally", None, st, note="finally(exc)")
            sub = _Ctx()
            sub.handlers = outer_handlers
            sub.loops = outer_loops
            sub.finals = list(ctx.finals)
            ends = self._block(st.finalbody, [(fin_exc_entry, "next")], sub)
            for p, lab in ends:
                self._raise_from(p, sub)

            def fin_handler(node, raised, _e=fin_exc_entry):
                self._edge(node, _e, "exc")
                return True   # everything passes through finally; it re-raises itself

            ctx.handlers.append(fin_handler)
            ctx.finals.append((st.finalbody, outer_handlers, outer_loops))
        # handlers of this try
        hnodes = []
        for h in st.handlers:
            hn = self._new("except", h.type, h, note="except")
            hn.stmt = h
            hnodes.append((h, hn))

        def try_handler(node, raised, _hn=hnodes):
            for h, hn in _hn:
                names = _handler_names(h)
                if names is None or names & CATCH_ALL:
                    self._edge(node, hn, "exc")
                    return True
                if raised is not None:
                    verdict = _catches(names, raised, self.exc_classes)
                    if verdict is True:
                        self._edge(node, hn, "exc")
                        return True
                    if verdict is False:
                        continue
                self._edge(node, hn, "exc")
            return False

        if st.handlers:
            ctx.handlers.append(try_handler)
        body_ends = self._block(st.body, preds, ctx)
        if st.handlers:
            ctx.handlers.pop()
        if st.orelse:
            body_ends = self._block(st.orelse, body_ends, ctx)
        ends = list(body_ends)
        for h, hn in hnodes:
            ends += self._block(h.body, [(hn, "next")], ctx)
        if has_final:
            ctx.handlers.pop()
            ctx.finals.pop()
            ends = self._block(st.finalbody, ends, ctx)
        return ends

    # ------------------------------------------------------------ indexing
    def _index(self):
        for n in self.nodes:
            if n.ast is None:
                continue
            if n.kind in ("test", "for", "with", "except"):
                for x in _walk_expr(n.ast):
                    self._by_ast.setdefault(id(x), n)
            elif n.kind == "stmt":
                if isinstance(n.ast, (ast.FunctionDef, ast.ClassDef, ast.AsyncFunctionDef)):
                    self._by_ast.setdefault(id(n.ast), n)
                    continue
                for x in ast.walk(n.ast):
                    self._by_ast.setdefault(id(x), n)
        # For targets belong to the header node
        for n in self.nodes:
            if n.kind == "for":
                for x in ast.walk(n.stmt.target):
                    self._by_ast.setdefault(id(x), n)
            if n.kind == "with":
                for it in n.stmt.items:
                    for x in ast.walk(it):
                        self._by_ast.setdefault(id(x), n)

    def node_of(self, astnode) -> Node:
        n = self._by_ast.get(id(astnode))
        if n is None:
            raise AnchorError(f"no CFG node for {short(astnode)} (line {getattr(astnode, 'lineno', '?')}) — dead code or nested function")
        return n

    def has_node(self, astnode):
        return id(astnode) in self._by_ast

    def nodes_where(self, pred):
        return [n for n in self.nodes if n.ast is not None and pred(n)]

    # ------------------------------------------------------------ queries
    def reach(self, start_edges=None, starts=None, avoid=(), cut=None):
        """forward reachability.  start_edges: iterable of (src, dst, label);
        starts: iterable of nodes.  avoid: nodes not to enter.  cut(src,dst,label)->bool
        edges not to follow.  Returns dict node -> (prev node, label) for witnesses."""
        avoid = set(avoid)
        seen = {}
        dq = deque()
        if starts:
            for s in starts:
                if s not in avoid and s not in seen:
                    seen[s] = None
                    dq.append(s)
        if start_edges:
            for a, b, lab in start_edges:
                if cut and cut(a, b, lab):
                    continue
                if b not in avoid and b not in seen:
                    seen[b] = (a, lab)
                    dq.append(b)
        while dq:
            n = dq.popleft()
            for m, lab in n.succ:
                if m in seen or m in avoid:
                    continue
                if cut and cut(n, m, lab):
                    continue
                seen[m] = (n, lab)
                dq.append(m)
        return seen

    def witness(self, seen, target):
        path = []
        cur = target
        guard = 0
        while cur is not None and guard < 10000:
            guard += 1
            prev = seen.get(cur)
            if prev is None:
                path.append((cur, None))
                break
            path.append((cur, prev[1]))
            cur = prev[0]
            if cur not in seen:
                path.append((cur, None))
                break
        path.reverse()
        return path

    def fmt_path(self, path):
        out = []
        for n, lab in path:
            if lab and lab not in ("next",):
                out.append(f"—{lab}→ {n.describe()}")
            else:
                out.append(n.describe())
        return out

    def out_edges(self, node, labels=None):
        return [(node, m, lab) for m, lab in node.succ if labels is None or lab in labels]

    def dominators(self):
        """dict node -> set of nodes dominating it (over nodes reachable from entry)"""
        reach = list(self.reach(starts=[self.entry]).keys())
        allset = set(reach)
        dom = {n: set(allset) for n in reach}
        dom[self.entry] = {self.entry}
        changed = True
        while changed:
            changed = False
            for n in reach:
                if n is self.entry:
                    continue
                ps = [p for p, _ in n.pred if p in dom]
                if not ps:
                    continue
                new = set.intersection(*[dom[p] for p in ps]) | {n}
                if new != dom[n]:
                    dom[n] = new
                    changed = True
        return dom

    def escapes(self, start_edges=None, starts=None, through=(), targets=None, cut=None):
        """Is some target reachable from the starts without entering a node of
        `through`?  Returns a witness path or None.  targets defaults to both exits."""
        if targets is None:
            targets = [self.exit, self.raise_exit]
        seen = self.reach(start_edges=start_edges, starts=starts, avoid=through, cut=cut)
        for t in targets:
            if t in seen:
                return self.witness(seen, t)
        return None

    def stats(self):
        return {"nodes": len(self.nodes), "edges": sum(len(n.succ) for n in self.nodes)}


# ----------------------------------------------------------------------
def _const_truth(test):
    if isinstance(test, ast.Constant):
        return bool(test.value)
    return None


def _handler_names(h: ast.ExceptHandler):
    """set of class simple names the handler names; None for bare except"""
    if h.type is None:
        return None
    t = h.type
    elts = t.elts if isinstance(t, ast.Tuple) else [t]
    out = set()
    for e in elts:
        if isinstance(e, ast.Name):
            out.add(e.id)
        elif isinstance(e, ast.Attribute):
            out.add(e.attr)
        else:
            out.add("?")
    return out


def _raised_class(st: ast.Raise):
    e = st.exc
    if e is None:
        return None
    if isinstance(e, ast.Call):
        e = e.func
    if isinstance(e, ast.Name):
        return e.id
    if isinstance(e, ast.Attribute):
        return e.attr
    return None


def _bases_of(name, exc_classes):
    """all ancestor names of exception class `name` (builtins + project table)"""
    out = set()
    todo = [name]
    while todo:
        n = todo.pop()
        if n in out:
            continue
        out.add(n)
        if n in exc_classes:
            todo.extend(exc_classes[n])
        else:
            b = getattr(builtins, n, None)
            if isinstance(b, type) and issubclass(b, BaseException):
                out.update(c.__name__ for c in b.__mro__)
            elif n == "JSONDecodeError":
                out.update(["ValueError", "Exception", "BaseException"])
            elif n == "ValidationError":
                out.update(["ValueError", "Exception", "BaseException"])
    return out


def _catches(handler_names, raised, exc_classes):
    """True: surely caught; False: surely not; None: unknown"""
    anc = _bases_of(raised, exc_classes)
    if anc & handler_names:
        return True
    known = all((getattr(builtins, h, None) is not None) or h in exc_classes for h in handler_names)
    raised_known = getattr(builtins, raised, None) is not None or raised in exc_classes
    if known and raised_known:
        return False
    return None


def catches(handler: ast.ExceptHandler, raised: str, exc_classes=None):
    names = _handler_names(handler)
    if names is None or names & CATCH_ALL:
        return True
    return _catches(names, raised, exc_classes or {})


# ----------------------------------------------------------------------
def edge_facts(test: ast.expr, label: str):
    """Atoms that definitely hold on the T / F edge of a test expression:
    list of (expr, polarity).  `a and b` on T gives both; `a or b` on F gives
    both negated; `not x` flips."""
    pol = label == "T"
    out = []

    def go(e, p):
        if isinstance(e, ast.UnaryOp) and isinstance(e.op, ast.Not):
            go(e.operand, not p)
        elif isinstance(e, ast.BoolOp):
            if (isinstance(e.op, ast.And) and p) or (isinstance(e.op, ast.Or) and not p):
                for v in e.values:
                    go(v, p)
            else:
                out.append((e, p))
        else:
            out.append((e, p))

    go(test, pol)
    return out
