from __future__ import annotations

import argparse
import importlib
import os
import sys
import traceback

from .loader import AnchorError, Project
from .report import Ledger


def main(argv=None) -> int:
    ap = argparse.ArgumentParser(prog="check")
    ap.add_argument("prop")
    ap.add_argument("--tier", default=os.environ.get("VERIF_TIER", "quick"), choices=["quick", "thorough"])
    ap.add_argument("--no-selftest", action="store_true", help="thorough tier without the mutant self-test")
    a = ap.parse_args(argv)
    pid = a.prop.upper()
    try:
        try:
            mod = importlib.import_module(f"opsa.props.{pid.lower()}")
        except ModuleNotFoundError:
            print(f"ANALYSIS-ERROR property={pid} no check implemented")
            return 2
        project = Project()
        led = Ledger(pid, a.tier)
        mod.run(project, led, a.tier)
        rc = led.finish(project, getattr(mod, "FILES", None))
        if rc == 0 and a.tier == "thorough" and not a.no_selftest and not os.environ.get("OPSA_NO_SELFTEST"):
            from . import selftest
            rc2 = selftest.run_for(pid)
            if rc2 != 0:
                return 2
        return rc
    except AnchorError as e:
        print(f"ANALYSIS-ERROR property={pid} anchor: {e}")
        return 2
    except Exception:
        tb = traceback.format_exc().splitlines()
        print("\n".join(tb[:6] + (["  ..."] if len(tb) > 26 else []) + tb[-20:]))
        print(f"ANALYSIS-ERROR property={pid} internal error (see traceback above)")
        return 2


if __name__ == "__main__":
    _rc = main()
    sys.stdout.flush()
    sys.stderr.flush()
    # helper threads of suspended generators (fdai) are daemons; leave without waiting for finalisers
    os._exit(_rc)
