#!/bin/sh
# Nothing to build: the analyser is pure standard library. Verify the interpreter and that /repo parses.
cd "$(dirname "$0")" || exit 1
PY=/venv/bin/python
[ -x "$PY" ] || PY=python3
"$PY" -B -c "import ast,sys; assert sys.version_info >= (3,10); import opsa.loader as l; p=l.Project(); print('opsa ready:', len(p.modules), 'modules parsed')"
