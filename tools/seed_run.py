#!/usr/bin/env python3
"""Apply every /verif/seeded/*/patch.diff to /repo in turn, run the owning property's quick check, revert.
Writes /verif/seeded/RESULTS.md and updates each meta.json with the detection outcome."""
import json, subprocess, sys, re
from pathlib import Path
V = Path("/verif"); R = "/repo"
only = set(sys.argv[1:])
rows = []
if subprocess.run(["git", "-C", R, "diff", "--quiet"]).returncode != 0:
    sys.exit("repo dirty")
for d in sorted((V / "seeded").iterdir()):
    if not (d / "patch.diff").exists():
        continue
    if only and d.name not in only:
        continue
    meta = json.loads((d / "meta.json").read_text())
    prop = meta["property"]
    ap = subprocess.run(["git", "-C", R, "apply", str(d / "patch.diff")], capture_output=True, text=True)
    if ap.returncode != 0:
        rows.append((d.name, prop, "patch does not apply to current HEAD", ""))
        meta["detection"] = {"rc": None, "note": "patch does not apply to the current /repo HEAD (base moved)"}
        (d / "meta.json").write_text(json.dumps(meta, indent=1))
        continue
    try:
        pr = subprocess.run(["./check", prop, "--tier", "quick"], cwd=V, capture_output=True, text=True)
    finally:
        subprocess.run(["git", "-C", R, "checkout", "--", "."])
        subprocess.run(["git", "-C", R, "clean", "-fdq", "operon_ai"])
    rules = sorted(set(re.findall(r"rule=(\S+)", pr.stdout)))
    first = next((l.strip() for l in pr.stdout.splitlines() if "rule=" in l), "")
    verdict = {0: "MISSED", 1: "caught", 2: "analysis-error"}.get(pr.returncode, str(pr.returncode))
    rows.append((d.name, prop, verdict, ", ".join(rules)))
    meta["detection"] = {"rc": pr.returncode, "verdict": verdict, "rules": rules, "first_report": first[:400],
                         "ran": f"git -C /repo apply seeded/{d.name}/patch.diff; ./check {prop} --tier quick; git -C /repo checkout -- ."}
    (d / "meta.json").write_text(json.dumps(meta, indent=1))
out = ["# Seeded changes vs. checks", "", "| change | property | outcome | rules that fired |", "|---|---|---|---|"]
for r in rows:
    out.append("| " + " | ".join(r) + " |")
if not only:
    (V / "seeded" / "RESULTS.md").write_text("\n".join(out) + "\n")
print("\n".join(out))
