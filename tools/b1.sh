#!/bin/sh
# tools/b1.sh <benign-name> [extra check args]: apply one refactoring to /repo, run its property's quick check, revert
n=$1; shift
p=$(echo $n | cut -d- -f1)
d=/verif/seeded_benign/$n; [ -d $d ] || d=/verif/seeded/$n
git -C /repo apply $d/patch.diff || exit 3
OPSA_EVIDENCE_DIR=${TMPDIR:-/tmp}/b1ev /verif/check $p "$@" 2>&1
rc=$?
git -C /repo checkout -- .
echo "rc=$rc"
