#!/bin/bash
# tools/round4.sh <Cnn>...: verify (scratch worktree), import as Cnn-11/Cnn-12 and evaluate the round-6 seeds of each property
for P in "$@"; do
  for n in 1 2; do
    src=/tmp/wt/out6/$P/$n; name=$P-$((n+10))
    [ -f $src/patch.diff ] || { echo "$name: no patch"; continue; }
    v=$(/verif/tools/seedverify.sh $src 2>&1 | tail -1)
    echo "$name verify: $v"
    case "$v" in *"demo_clean=0 demo_patched=1 suite_patched=0"*) ;; *) echo "$name: NOT CONFIRMED, skipped"; continue;; esac
    /venv/bin/python /verif/tools/seed_import.py $src $name $P >/dev/null
    /venv/bin/python /verif/tools/seed_run.py $name | tail -1
  done
done
