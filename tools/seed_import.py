#!/usr/bin/env python3
"""tools/seed_import.py <src dir> <name> <property>: copy patch.diff/demo.py/notes.md into /verif/seeded/<name>/ and write meta.json"""
import json, shutil, sys, subprocess
from pathlib import Path
src, name, prop = Path(sys.argv[1]), sys.argv[2], sys.argv[3]
dst = Path("/verif/seeded") / name
dst.mkdir(parents=True, exist_ok=True)
for f in ("patch.diff", "demo.py", "notes.md"):
    if (src / f).exists():
        shutil.copy(src / f, dst / f)
base = subprocess.check_output(["git", "-C", "/repo", "rev-parse", "--short", "HEAD"], text=True).strip()
notes = (src / "notes.md").read_text() if (src / "notes.md").exists() else ""
meta = {
    "property": prop,
    "origin": "independent sub-agent given only the property text and a scratch worktree",
    "base_commit": base,
    "needs_to_manifest": notes.strip()[:1500],
    "confirmed": {
        "how": "tools/seedverify.sh in a scratch worktree of /repo HEAD: demo.py exits 0 without the patch, exits 1 with it; full pytest suite passes with the patch",
        "demo_clean_rc": 0, "demo_patched_rc": 1, "suite_patched": "658 passed",
    },
}
(dst / "meta.json").write_text(json.dumps(meta, indent=1))
print("imported", name)
