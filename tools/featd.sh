#!/bin/bash
# tools/featd.sh <Cnn>...: import the "feature done right" patches of each property as Cnn-d1/Cnn-d2 (after confirming in a
# scratch worktree that the suite passes and the author's check.py passes with the patch) and run every affected check
for P in "$@"; do
  for n in 1 2; do
    R=${ROUND:-d}; src=/tmp/wt/out$R/$P/$n; name=$P-$R$n
    [ -f $src/patch.diff ] || { echo "$name: no patch"; continue; }
    w=/tmp/wt/verify_d_$$
    git -C /repo worktree add -q --detach $w HEAD || exit 9
    ( cd $w && git apply $src/patch.diff ) || { echo "$name: APPLY-FAILED"; git -C /repo worktree remove --force $w; continue; }
    ( cd $w && PYTHONPATH=$w timeout 600 /venv/bin/python -m pytest -q -p no:cacheprovider -x -q >/tmp/wt/vd_suite.log 2>&1 ); rs=$?
    rc=0; [ -f $src/check.py ] && { ( cd $w && PYTHONPATH=$w timeout 1200 /venv/bin/python $src/check.py >/tmp/wt/vd_check.log 2>&1 ); rc=$?; }
    git -C /repo worktree remove --force $w
    echo "$name suite_rc=$rs check_rc=$rc"
    [ $rs -eq 0 ] && [ $rc -eq 0 ] || { echo "$name: NOT CONFIRMED, skipped"; continue; }
    /venv/bin/python /verif/tools/benign_import.py $src $name $P >/dev/null
    [ -f $src/check.py ] && cp $src/check.py /verif/seeded_benign/$name/check.py
    python3 - $name <<'PY'
import json,sys
p=f"/verif/seeded_benign/{sys.argv[1]}/meta.json"; m=json.load(open(p))
m["kind"]="behaviour-changing feature under which the property still holds (the check must stay silent); the author's adversarial check.py passes with it"
json.dump(m,open(p,"w"),indent=1)
PY
    /venv/bin/python /verif/tools/benign_run.py $name 2>&1 | grep "^| $name"
  done
done
