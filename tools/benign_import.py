#!/usr/bin/env python3
"""tools/benign_import.py <src dir> <name> <property>: import a behaviour-preserving refactoring into /verif/seeded_benign/<name>/"""
import json, shutil, sys, subprocess
from pathlib import Path
src, name, prop = Path(sys.argv[1]), sys.argv[2], sys.argv[3]
dst = Path("/verif/seeded_benign") / name
dst.mkdir(parents=True, exist_ok=True)
for f in ("patch.diff", "notes.md"):
    if (src / f).exists():
        shutil.copy(src / f, dst / f)
base = subprocess.check_output(["git", "-C", "/repo", "rev-parse", "--short", "HEAD"], text=True).strip()
meta = {"property": prop, "kind": "behaviour-preserving refactoring (the check must stay silent)",
        "origin": "independent sub-agent given only the property text and a scratch worktree", "base_commit": base,
        "what": ((src / "notes.md").read_text().strip()[:1200] if (src / "notes.md").exists() else "")}
(dst / "meta.json").write_text(json.dumps(meta, indent=1))
print("imported", name)
