#!/bin/bash
# tools/seedverify.sh <dir with patch.diff demo.py>: in a scratch worktree of /repo HEAD confirm
# demo passes without the patch, fails with it, and the suite passes with it.
d=$1
w=/tmp/wt/verify_$$
git -C /repo worktree add -q --detach $w HEAD || exit 9
cd $w
PYTHONPATH=$w timeout 120 /venv/bin/python $d/demo.py >/tmp/wt/v_clean.log 2>&1; rc_clean=$?
git apply $d/patch.diff || { echo "APPLY-FAILED"; cd /; git -C /repo worktree remove --force $w; exit 8; }
PYTHONPATH=$w timeout 120 /venv/bin/python $d/demo.py >/tmp/wt/v_pat.log 2>&1; rc_pat=$?
PYTHONPATH=$w timeout 600 /venv/bin/python -m pytest -q -p no:cacheprovider -x -q >/tmp/wt/v_suite.log 2>&1; rc_suite=$?
echo "$d demo_clean=$rc_clean demo_patched=$rc_pat suite_patched=$rc_suite $(tail -1 /tmp/wt/v_suite.log)"
cd /; git -C /repo worktree remove --force $w
