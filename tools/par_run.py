#!/usr/bin/env python3
"""Parallel regression over the seeded patches without touching /repo's working tree: every patch is applied in its own
scratch worktree of /repo HEAD (under /tmp, removed afterwards) and the checks are pointed at it with OPSA_REPO.

  tools/par_run.py benign [names…]   every check whose analysed files the patch touches must exit 0
  tools/par_run.py seeds  [names…]   the owning property's check is expected to exit 1 (recorded verdicts are compared)

Prints one line per patch and a summary; exit status 0 iff nothing unexpected (benign: all silent; seeds: same outcome as
recorded in meta.json — a seed recorded as caught must still be caught).  16 workers."""
import importlib, json, os, re, subprocess, sys, tempfile, shutil
from concurrent.futures import ThreadPoolExecutor
from pathlib import Path
V = Path("/verif"); R = "/repo"
sys.path.insert(0, str(V))
mode = sys.argv[1]
only = set(sys.argv[2:])
FILES = {}
for i in range(1, 21):
    pid = f"C{i:02d}"
    FILES[pid] = set(getattr(importlib.import_module(f"opsa.props.{pid.lower()}"), "FILES", []))
base = Path(tempfile.mkdtemp(prefix="par_run_", dir="/tmp"))


def one(d):
    meta = json.loads((d / "meta.json").read_text()) if (d / "meta.json").exists() else {"property": d.name.split("-")[0]}
    prop = meta["property"]
    w = base / d.name
    ev = base / (d.name + ".ev")
    for _try in range(5):
        if subprocess.run(["git", "-C", R, "worktree", "add", "-q", "--detach", str(w), "HEAD"], capture_output=True).returncode == 0 and w.exists():
            break
        import time as _t
        _t.sleep(0.5 + _try)          # concurrent `worktree add`s contend for .git/worktrees
    try:
        ap = subprocess.run(["git", "apply", str(d / "patch.diff")], cwd=w, capture_output=True, text=True)
        if ap.returncode != 0:
            return d.name, prop, "patch does not apply", {}
        touched = set(re.findall(r"^\+\+\+ b/(\S+)", (d / "patch.diff").read_text(), flags=re.M))
        props = [prop] + (sorted(q for q, fs in FILES.items() if q != prop and fs & touched) if mode == "benign" else [])
        env = dict(os.environ, OPSA_REPO=str(w), OPSA_EVIDENCE_DIR=str(ev))
        res = {}
        for q in props:
            pr = subprocess.run(["./check", q, "--tier", "quick"], cwd=V, capture_output=True, text=True, env=env)
            first = next((l.strip() for l in pr.stdout.splitlines() if "rule=" in l or "ANALYSIS-ERROR" in l), "")
            rules = sorted(set(re.findall(r"rule=(C\d\d-R\w+)", pr.stdout)))
            res[q] = (pr.returncode, first, rules)
        return d.name, prop, None, res
    finally:
        subprocess.run(["git", "-C", R, "worktree", "remove", "--force", str(w)], capture_output=True)
        shutil.rmtree(ev, ignore_errors=True)


root = Path(os.environ["PAR_ROOT"]) if os.environ.get("PAR_ROOT") else V / ("seeded_benign" if mode == "benign" else "seeded")
dirs = [d for d in sorted(root.iterdir()) if (d / "patch.diff").exists() and (not only or d.name in only)]
with ThreadPoolExecutor(max_workers=16) as ex:
    results = list(ex.map(one, dirs))
subprocess.run(["git", "-C", R, "worktree", "prune"])
shutil.rmtree(base, ignore_errors=True)
unexpected = 0
for name, prop, err, res in results:
    if err:
        print(f"{name}: {err}")
        unexpected += 1
        continue
    if mode == "benign":
        bad = {q: r for q, r in res.items() if r[0] != 0}
        if bad:
            unexpected += 1
            print(f"{name}: " + ", ".join(f"{q}: {'FALSE ALARM' if r[0] == 1 else 'ANALYSIS-ERROR'} {r[1][:200]}" for q, r in sorted(bad.items())))
        else:
            print(f"{name}: silent (ok) under {', '.join(res)}")
    else:
        rc, first, rules = res[prop]
        meta = json.loads((root / name / "meta.json").read_text())
        was = (meta.get("detection") or {}).get("verdict", "?")
        now = {0: "MISSED", 1: "caught", 2: "analysis-error"}.get(rc, str(rc))
        flag = ""
        if was.lower().startswith("caught") and now != "caught":
            unexpected += 1
            flag = "   <== was caught"
        print(f"{name}: {now} {','.join(rules)}{flag}")
print(f"# {mode}: {len(results)} patches, {unexpected} unexpected")
sys.exit(1 if unexpected else 0)
