#!/usr/bin/env python3
"""Regenerates /verif/MANIFEST.json from the table below (keeps it schema-valid)."""
import json, sys
from pathlib import Path

V = Path(__file__).resolve().parent.parent

# id -> (category, technique, text, note, design_ref)   for claimed checks
CLAIMED = {}
# id -> reason   for everything else
NA = {}

def load():
    spec = json.loads((V / "tools" / "manifest_table.json").read_text())
    return spec

def main():
    spec = load()
    ids = [json.loads(l)["id"] for l in (V / "properties.jsonl").read_text().splitlines() if l.strip()]
    checks, na = [], []
    for i in ids:
        c = spec["claimed"].get(i)
        if c:
            checks.append({
                "property_id": i,
                "quick_cmd": f"./check {i} --tier quick",
                "thorough_cmd": f"./check {i} --tier thorough",
                "evidence_file": f"/verif/evidence/{i}.json",
                "replay_cmd_template": "cat {path}",
                "engine": "opsa",
                "level_claimed": {"category": c["category"], "text": c["text"], "design_ref": c.get("design_ref", f"DESIGN.md §5 {i}")},
                "level_note": c["note"],
                "technique": c["technique"],
            })
        else:
            na.append({"property_id": i, "reason": spec["not_applicable"].get(i, "check not yet implemented in this tree; nothing is claimed")})
    m = {
        "version": 1,
        "setup_cmd": "./setup.sh",
        "hooks": {
            "guard": "COREDIPPER_OPERON_VERIF",
            "enable": "none needed: the checks parse /repo's working tree and never execute it; no hook commits exist",
            "baseline_off_cmd": "cd /repo && /venv/bin/python -m pytest -ra -q -p no:cacheprovider --timeout=900 --continue-on-collection-errors",
            "source_commits": [],
            "add_only": True,
        },
        "engines": [{
            "name": "opsa",
            "path": "/verif/opsa",
            "serves_properties": [c["property_id"] for c in checks],
            "kind_free_text": "repository-specific static analyser (stdlib ast): CFG with exception edges, dominator/"
                              "must-pass-through queries, constructor-driven call resolution, lock-region analysis, "
                              "finite-domain abstract interpretation, table/sibling cross-checks",
        }],
        "checks": checks,
        "not_applicable": na,
        "notes": spec.get("notes", ""),
    }
    (V / "MANIFEST.json").write_text(json.dumps(m, indent=1) + "\n")
    print(f"MANIFEST.json: {len(checks)} checks, {len(na)} not_applicable")

if __name__ == "__main__":
    main()
