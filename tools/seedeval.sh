#!/bin/bash
# tools/seedeval.sh <dir with patch.diff> <check ids...>
# applies the patch to /repo, runs the quick checks, reverts. Prints rc per check.
d=$1; shift
cd /repo || exit 9
git diff --quiet || { echo "repo dirty"; exit 9; }
git apply "$d/patch.diff" || { echo "APPLY-FAILED $d"; exit 8; }
for id in "$@"; do
  out=$(cd /verif && ./check $id 2>&1); rc=$?
  echo "== $d $id rc=$rc"
  echo "$out" | grep -E "VIOLATION|ANALYSIS-ERROR|rule=" | cut -c1-330 | head -8
done
git checkout -- . ; git clean -fdq operon_ai
