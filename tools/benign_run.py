#!/usr/bin/env python3
"""Apply every /verif/seeded_benign/*/patch.diff to /repo in turn, run the suite (must pass) and the owning check (must exit 0), revert."""
import json, subprocess, sys, re
from pathlib import Path
V = Path("/verif"); R = "/repo"
only = set(a for a in sys.argv[1:] if not a.startswith("--"))
suite = "--suite" in sys.argv
rows = []
if subprocess.run(["git", "-C", R, "diff", "--quiet"]).returncode != 0:
    sys.exit("repo dirty")
for d in sorted((V / "seeded_benign").iterdir()):
    if not (d / "patch.diff").exists() or (only and d.name not in only):
        continue
    meta = json.loads((d / "meta.json").read_text())
    prop = meta["property"]
    ap = subprocess.run(["git", "-C", R, "apply", str(d / "patch.diff")], capture_output=True, text=True)
    if ap.returncode != 0:
        rows.append((d.name, prop, "patch does not apply", ""))
        continue
    try:
        st = ""
        if suite:
            t = subprocess.run(["/venv/bin/python", "-m", "pytest", "-q", "-p", "no:cacheprovider", "-x", "-q"], cwd=R, capture_output=True, text=True)
            st = "suite ok" if t.returncode == 0 else "SUITE FAILS"
        pr = subprocess.run(["./check", prop, "--tier", "quick"], cwd=V, capture_output=True, text=True)
    finally:
        subprocess.run(["git", "-C", R, "checkout", "--", "."])
        subprocess.run(["git", "-C", R, "clean", "-fdq", "operon_ai"])
    first = next((l.strip() for l in pr.stdout.splitlines() if "rule=" in l or "ANALYSIS-ERROR" in l), "")
    verdict = {0: "silent (ok)", 1: "FALSE ALARM", 2: "ANALYSIS-ERROR"}.get(pr.returncode, str(pr.returncode))
    rows.append((d.name, prop, verdict + (" / " + st if st else ""), first[:220]))
    meta["result"] = {"rc": pr.returncode, "verdict": verdict, "first_report": first[:400]}
    (d / "meta.json").write_text(json.dumps(meta, indent=1))
out = ["# Behaviour-preserving refactorings vs. checks (must stay silent)", "", "| refactoring | property | outcome | first report |", "|---|---|---|---|"]
for r in rows:
    out.append("| " + " | ".join(r) + " |")
if not only:
    (V / "seeded_benign" / "RESULTS.md").write_text("\n".join(out) + "\n")
print("\n".join(out))
