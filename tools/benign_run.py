#!/usr/bin/env python3
"""Apply every /verif/seeded_benign/*/patch.diff to /repo in turn and run every check whose analysed files the patch
touches (the owning property's check always); all must exit 0.  --suite also runs the test suite; --own runs only the
owning check.  Evidence of these runs goes to a scratch directory, never to /verif/evidence."""
import importlib, json, os, subprocess, sys, re, tempfile
from pathlib import Path
V = Path("/verif"); R = "/repo"
sys.path.insert(0, str(V))
only = set(a for a in sys.argv[1:] if not a.startswith("--"))
suite = "--suite" in sys.argv
own = "--own" in sys.argv
FILES = {}
for i in range(1, 21):
    pid = f"C{i:02d}"
    FILES[pid] = set(getattr(importlib.import_module(f"opsa.props.{pid.lower()}"), "FILES", []))
rows = []
if subprocess.run(["git", "-C", R, "diff", "--quiet"]).returncode != 0:
    sys.exit("repo dirty")
scratch = tempfile.mkdtemp(prefix="benign_ev_")
env = dict(os.environ, OPSA_EVIDENCE_DIR=scratch)
for d in sorted((V / "seeded_benign").iterdir()):
    if not (d / "patch.diff").exists() or (only and d.name not in only):
        continue
    meta = json.loads((d / "meta.json").read_text())
    prop = meta["property"]
    touched = set(re.findall(r"^\+\+\+ b/(\S+)", (d / "patch.diff").read_text(), flags=re.M))
    props = [prop] + ([] if own else sorted(q for q, fs in FILES.items() if q != prop and fs & touched))
    ap = subprocess.run(["git", "-C", R, "apply", str(d / "patch.diff")], capture_output=True, text=True)
    if ap.returncode != 0:
        rows.append((d.name, prop, "patch does not apply", ""))
        continue
    results = {}
    try:
        st = ""
        if suite:
            t = subprocess.run(["/venv/bin/python", "-m", "pytest", "-q", "-p", "no:cacheprovider", "-x", "-q"], cwd=R, capture_output=True, text=True)
            st = "suite ok" if t.returncode == 0 else "SUITE FAILS"
        for q in props:
            pr = subprocess.run(["./check", q, "--tier", "quick"], cwd=V, capture_output=True, text=True, env=env)
            first = next((l.strip() for l in pr.stdout.splitlines() if "rule=" in l or "ANALYSIS-ERROR" in l), "")
            results[q] = (pr.returncode, first)
    finally:
        subprocess.run(["git", "-C", R, "checkout", "--", "."])
        subprocess.run(["git", "-C", R, "clean", "-fdq", "operon_ai"])
    bad = {q: r for q, r in results.items() if r[0] != 0}
    if not bad:
        verdict = f"silent (ok) under {', '.join(props)}"
        first = ""
    else:
        q, (rc, first) = sorted(bad.items())[0]
        verdict = ", ".join(f"{q}: " + {1: "FALSE ALARM", 2: "ANALYSIS-ERROR"}.get(r[0], str(r[0])) for q, r in sorted(bad.items()))
    rows.append((d.name, prop, verdict + (" / " + st if st else ""), first[:220]))
    meta["result"] = {"checks_run": props, "verdict": verdict, "first_report": first[:400]}
    (d / "meta.json").write_text(json.dumps(meta, indent=1))
subprocess.run(["rm", "-rf", scratch])
out = ["# Behaviour-preserving refactorings vs. checks (must stay silent)", "", "| refactoring | property | outcome | first report |", "|---|---|---|---|"]
for r in rows:
    out.append("| " + " | ".join(r) + " |")
if not only:
    (V / "seeded_benign" / "RESULTS.md").write_text("\n".join(out) + "\n")
print("\n".join(out))
